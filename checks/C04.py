"""C04 — expiry: keys live exactly until their deadline, then are unobservable.

Every generated history is run twice on the implementation: (a) lazy expiry only, (b) with passes of the background
sampler inserted at random positions (any database, sample sizes 1 2 3 20, every eviction policy name).  Judged:
  1. model vs implementation, strictly (replies, digests incl. deadlines and the volatile-key index), for both runs —
     the model is the one the theorems of Properties/C04.v are about (runner mode model04; a sampler pass is resolved
     by the implementation and validated by the model, see coq/Model/ScriptExpiry.v);
  2. the two implementation runs agree on every reply ("whether or not background expiry has run");
  3. the acceptance oracle (coq/Spec/SpecRunExpiry.v, runner mode spec04) on each implementation trace."""
import re
import common, framework
from common import *
from framework import *
import gen_c04, c04lib

# the framework's shrinker re-runs the model through run_model(scripts): give it the C04 model runner
def _model04(scripts, mode="model"):
    if mode != "model":
        return common.run_model(scripts, mode)
    impl = run_impl(scripts, 1.0)
    return common.run_model([c04lib.with_hints(s, impl.get(s.id, [])) for s in scripts], "model04")
framework.run_model = _model04

INT64_S = 9223372036          # |seconds| beyond which time.Duration(n)*time.Second wraps
INT64_MS = 9223372036854      # |milliseconds| beyond which time.Duration(n)*time.Millisecond wraps

def spec_script(script, impl_lines):
    """the oracle's input: events + the implementation's replies + its keyspace after every event"""
    sp = Script(script.id + "_spec", {"now": script.cfg.get("now", DEFAULT_NOW)})
    oi = 0
    zmap = []          # index into script.events of the event judged by the n-th verdict
    last = None
    for idx, (l, e) in enumerate(zip(script.lines, script.events)):
        out = None
        if e[0] in c04lib.OUT_EVENTS:
            out = impl_lines[oi] if oi < len(impl_lines) else None
            oi += 1
            if out is None or out in ("DIED", "HUNG"):
                break
        if e[0] == "preset":
            sp.raw("I"); last = idx
        elif e[0] == "cmd":
            sp.raw(l); sp.raw(out if out.startswith("R ") else "R ?"); last = idx
        elif e[0] in ("advance", "select_embedded"):
            sp.raw(l); last = idx
        elif e[0] == "sweep":
            sp.raw("W %d" % e[1]); last = idx
        elif e[0] == "digest":
            if not out.startswith("G "):
                break
            dg = parse_digest(out)
            for db in sorted(dg["dbs"]):
                for k, (v, dl) in dg["dbs"][db].items():
                    sp.raw("K %d %s %s %d" % (db, k, v, dl))
            sp.raw("Z"); zmap.append(last); last = None
    sp.zmap = zmap
    return sp

def lazy_twin(script):
    """the same history without the sampler passes (and without the digest that follows each)"""
    t = Script(script.id + "_lz", script.cfg)
    skip = False
    for l, e in zip(script.lines, script.events):
        if e[0] == "sweep":
            skip = True; continue
        if skip and e[0] == "digest":
            skip = False; continue
        skip = False
        t.lines.append(l); t.events.append(e)
    return t

class C04(PropertyCheck):
    prop = "C04"
    theorem_file = "Properties/C04.v"
    spec_mode = "spec04"
    digest_opts = {"with_mem": False}      # the memory figure is C19's (in-place SADD/ZADD are not accounted)
    UNORDERED = PropertyCheck.UNORDERED | {"HGETALL"}

    def run(self):
        """own streams (sampler passes inserted between commands), then the sampler running *against* commands: the schedule
        controller of C05 (harness/sched) parks a sampler pass at its yield point and interleaves it with a command in every
        order; replies and live dataset must be those of some serial order (a pass that runs alone is unobservable, which is
        what the streams above establish) — reported under this property"""
        rc = PropertyCheck.run(self)
        return 1 if (self.sampler_against_commands() or rc) else 0

    def sampler_against_commands(self):
        import C05 as c05
        chk = c05.C05(self.tier, self.seed)
        cmds = [["SET", "e", "new"], ["MSET", "e", "1", "s", "2"], ["INCR", "e"], ["APPEND", "e", "x"], ["GET", "e"], ["DEL", "e"],
                ["LPUSH", "e", "q"], ["RENAME", "e", "s"], ["EXPIRE", "v", "100"], ["PERSIST", "v"], ["SET", "v", "w"], ["APPEND", "v", "+"],
                ["GETDEL", "v"], ["MGET", "e", "v"]]
        jobs = [c05.Job("c04s%d" % i, [("cmd", a), ("sweep", 0)]) for i, a in enumerate(cmds)]
        jobs += [c05.Job("c04t%d" % i, [("cmd", a), ("cmd", b), ("sweep", 0)], {"max": 120})
                 for i, (a, b) in enumerate([(cmds[0], cmds[4]), (cmds[2], cmds[8]), (cmds[1], cmds[9]), (cmds[5], cmds[0])])]
        impl, model, findings, stats = chk.evaluate_jobs(jobs)
        n = 0
        for f in findings:
            if f.get("weak") or n >= 4: continue
            concrete = f["kind"] in ("nonserial", "hung")
            rep = {"property": "C04", "kind": "sampler pass interleaved with a command: " + f["kind"], "what": f["what"], "job": f["job"].to_json(), "seed": self.seed}
            for key in ("sched", "impl", "serial", "model", "line"):
                if key in f: rep[key] = f[key]
            if not concrete: rep["no_longer_checks"] = "corr:C04:sampler-schedule"
            path = write_replay("C04", "S_%s%d" % (f["kind"], n), rep)
            print("VIOLATION property=C04 replay=%s%s" % (path, "" if concrete else " no-failing-input-found"))
            n += 1
        try:
            ev = os.path.join(VERIF, "evidence", "C04.json")
            main = json.load(open(ev))
            main["coverage"]["sampler_against_commands"] = dict(stats, jobs=len(jobs), findings=n,
                rule="every interleaving of one sampler pass (parked at its yield point) with one or two commands on an expired and a volatile key: replies and live dataset equal those of a serial order, and those of the extracted concurrent model (mode conc) schedule by schedule")
            main["coverage"]["evaluations"] = main["coverage"].get("evaluations", 0) + stats.get("schedules", 0)
            main["violations"] = main.get("violations", 0) + n
            json.dump(main, open(ev, "w"), indent=1, sort_keys=True)
        except Exception:
            pass
        log("C04 sampler-against-commands part: %d jobs, %d schedules, %d findings" % (len(jobs), stats.get("schedules", 0), n))
        return n

    @classmethod
    def replay_file(cls, path):
        if os.path.basename(path).startswith("C04_S_"):
            import C05 as c05
            return c05.C05.replay_file(path)
        return None      # the framework's own replay

    def reply_opts(self, argv):
        w = str(argv[0]).upper() if argv else ""
        if w == "HGETALL": return {"unordered": True, "pairs": True}
        return {"unordered": True} if w in self.UNORDERED else {}

    def per_script_timeout(self):
        return 1.0

    # ---- generation
    def streams(self):
        q = self.tier == "quick"
        rng = self.rng
        base = {
            "exhaustive": gen_c04.exhaustive(2 if q else 3, "x", ("volatile-lru",) if q else ("noeviction", "volatile-lru")),
            "random": [gen_c04.random_history(rng, "r%d" % i, 30, False, gen_c04.POLICIES[i % 7]) for i in range(700 if q else 10000)],
            "malformed": [gen_c04.random_history(rng, "m%d" % i, 14, True, gen_c04.POLICIES[i % 7]) for i in range(200 if q else 3000)],
            "boundary": gen_c04.boundary_histories(),
        }
        out = {}
        self.n_histories = sum(len(v) for v in base.values())
        for name, hs in base.items():
            out[name + "_lazy"] = [gen_c04.instrument(h, None, 0, "_l") for h in hs]
            out[name + "_sampler"] = [gen_c04.instrument(h, rng, 0.3, "_s") for h in hs]
        return out

    def exhaustive_note(self):
        d = 2 if self.tier == "quick" else 3
        return ("every sequence of length <= %d over %s from %d start states (empty; a string, a list with deadline now+10; a set without), "
                "each run lazily and with sampler passes" % (d, [n for n, _ in gen_c04.alphabet()], len(gen_c04.STARTS)))

    def rule(self):
        return ("histories over 2 keys x 2 databases: presets of all 7 value types with deadlines before / at / after the start time; "
                "EXPIRE PEXPIRE EXPIREAT PEXPIREAT x {none NX XX GT LT} with targets around the clock and around pending deadlines "
                "(<, =, >), PERSIST, SET with NX XX GET EX PX EXAT PXAT in any order, GETEX with every option, writes and "
                "existence-conditional writes of every module, reads of every module, FLUSHDB/FLUSHALL, clock advances to "
                "deadline-1, deadline, deadline+1 of a pending deadline; start times that are not whole seconds; every relative-time form at the limits "
                "of the range time.Duration carries exactly (+-9223372036 s, +-9223372036854 ms, one and a thousand below); all 7 eviction policy "
                "names with maxmem 0; each history run lazy-only and with sampler passes (sample 1 2 3 20). distinct = canonical script text; "
                "non-trivial = a clock advance and a successful write")

    def nontrivial(self, script, impl_lines):
        has_adv = any(e[0] == "advance" for e in script.events)
        ok_write = any(l.startswith("R ") and l not in ("R -", "R !", "R _", "R :0", "R :-2", "R :-1") for l in impl_lines)
        return has_adv and ok_write

    def in_known_trigger(self, script):
        """time arguments outside the range in which Go's time.Duration arithmetic is exact"""
        for e in script.events:
            if e[0] != "cmd": continue
            u = [str(a).upper() for a in e[2:]]
            def big(x, lim):
                try: return abs(int(x)) > lim
                except ValueError: return False
            if u and u[0] == "EXPIRE" and len(u) > 2 and big(u[2], INT64_S): return "KF-C04-duration-overflow"
            if u and u[0] == "PEXPIRE" and len(u) > 2 and big(u[2], INT64_MS): return "KF-C04-duration-overflow"
            for i, w in enumerate(u[:-1]):
                if w == "EX" and big(u[i + 1], INT64_S): return "KF-C04-duration-overflow"
                if w == "PX" and big(u[i + 1], INT64_MS): return "KF-C04-duration-overflow"
        return None

    # ---- evaluation
    def judge_trace(self, s, lines, spec_out):
        """first REJECT of the oracle on one implementation trace"""
        if any(l in ("DIED", "HUNG") for l in lines):
            return {"what": "the implementation " + ("hung" if "HUNG" in lines else "died"), "trace_tail": lines[-3:]}
        if any(l == "R !" for l in lines):
            i = lines.index("R !")
            return {"what": "a handler panicked", "index": i}
        if any(l.startswith("W ") and l != "W ok" for l in lines):
            return {"what": "the sampler pass failed or panicked", "line": [l for l in lines if l.startswith("W ") and l != "W ok"][0]}
        return None

    def oracle_verdicts(self, pairs):
        """pairs: [(script, impl_lines)] -> {script.id: verdict dict}"""
        rej = {}
        specs = []
        for s, a in pairs:
            v = self.judge_trace(s, a, None)
            if v:
                rej[s.id] = v; continue
            specs.append((s, spec_script(s, a)))
        out = common.run_model([sp for _, sp in specs], "spec04") if specs else {}
        for s, sp in specs:
            o = out.get(sp.id, ["<no output>"])
            for n, l in enumerate(o):
                if l.startswith("REJECT") or l.startswith("BAD") or l == "<no output>":
                    ei = sp.zmap[n] if n < len(sp.zmap) else None
                    rej[s.id] = {"what": "reference (spec04) rejects the implementation's trace", "verdict": l,
                                 "event_index": ei, "event": s.events[ei] if ei is not None else None}
                    break
            else:
                if len([l for l in o if l in ("OK",)]) != len(sp.zmap):
                    rej[s.id] = {"what": "reference produced %d verdicts for %d judged events" % (len(o), len(sp.zmap)), "out": o[-3:]}
        return rej

    def twin_mismatch(self, lazy, la, samp, sa):
        ra = c04lib.reply_lines(lazy, la); rb = c04lib.reply_lines(samp, sa)
        for i in range(max(len(ra), len(rb))):
            if i >= len(ra) or i >= len(rb):
                return {"what": "lazy and sampler runs have different numbers of replies", "index": i}
            (av, x), (_, y) = ra[i], rb[i]
            if x == y: continue
            u, v = norm_tree(parse_reply(x[2:]), parse_reply(y[2:]), **self.reply_opts(av))
            if u != v:
                return {"what": "a reply depends on whether background expiry has run", "index": i, "command": av,
                        "lazy_only": x, "with_sampler": y}
        return None

    def evaluate(self, scripts):
        impl = run_impl(scripts, self.per_script_timeout())
        mscripts = [c04lib.with_hints(s, impl.get(s.id, [])) for s in scripts]
        model = common.run_model(mscripts, "model04")
        div, rej = [], []
        for s in scripts:
            d = compare_lines(s, impl.get(s.id, ["<no output>"]), model.get(s.id, ["<no output>"]), self.reply_opts, self.digest_opts)
            if d:
                div.append((s, d))
        verdicts = self.oracle_verdicts([(s, impl.get(s.id, [])) for s in scripts])
        by_base = {}
        for s in scripts:
            b = getattr(s, "base_id", None)
            if b: by_base.setdefault(b, {})[s.id[-2:]] = s
        self.twin_comparisons = 0
        for b, pr in by_base.items():
            if "_l" in pr and "_s" in pr:
                self.twin_comparisons += 1
                m = self.twin_mismatch(pr["_l"], impl.get(pr["_l"].id, []), pr["_s"], impl.get(pr["_s"].id, []))
                if m and pr["_s"].id not in verdicts:
                    verdicts[pr["_s"].id] = m
        for s in scripts:
            if s.id in verdicts:
                rej.append((s, verdicts[s.id]))
        return impl, model, div, rej

    def oracle_report(self, c):
        im = run_impl([c], self.per_script_timeout())
        a = im.get(c.id, [])
        v = self.oracle_verdicts([(c, a)]).get(c.id)
        twin_trace = None
        if not v and any(e[0] == "sweep" for e in c.events):
            t = lazy_twin(c)
            ti = run_impl([t], self.per_script_timeout()).get(t.id, [])
            twin_trace = ti
            v = self.twin_mismatch(t, ti, c, a)
        if not v:
            return None
        rep = {"impl_trace": a, "verdict": v}
        if twin_trace is not None:
            rep["impl_trace_lazy_only"] = twin_trace
        return rep

    def replay_known(self, kf):
        w = kf.get("witness", {})
        s = Script("kf", {"now": gen_c04.NOW})
        for k, v in w.get("preset", []):
            s.preset(0, k, v, 0)
        for argv in w.get("commands", []):
            s.cmd(0, *argv)
        im = run_impl([s]).get(s.id, [])
        return bool(im) and im[-1] == w.get("expect_impl_last")

    def assumptions(self):
        return ["no memory limit configured (st_maxmem = 0): eviction at the limit belongs to C08; every eviction policy *name* is exercised "
                "because the sampler goroutine only exists under some of them",
                "the real ticker cadence of the sampler is replaced by explicit, synchronously driven passes at arbitrary positions of the "
                "history (sound: the property quantifies over any interval); a pass runs alone, interleaving with commands is C05",
                "time arguments are within the range where Go's time.Duration arithmetic is exact (|s| <= 9223372036, |ms| <= 9223372036854); "
                "outside it see the known finding C04-duration-overflow",
                "the reference adopts, where statement and documentation are silent: SET without a time option keeps the deadline of the "
                "live entry it replaces; EXPIRE & co. with LT set a deadline on a key that has none, with GT do not; TTL is the difference "
                "of the two unix-second stamps; option words are case-insensitive; an unknown 4th word of EXPIRE is only diagnosed for an "
                "existing key; GETEX with an option word but no number behaves as GET"]

if __name__ == "__main__":
    pass
