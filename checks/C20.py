"""C20 — logical databases are isolated namespaces."""
import re
from common import *
from framework import *
import gen_mixed, gen_kv

DBS = (0, 1, 2, 10, 12)

def db_sections(line):
    """digest line -> {db: text of that database's section}"""
    return {int(m.group(1)): m.group(0) for m in re.finditer(r"db(-?\d+)\{.*?\}v\[[^\]]*\]", _protect(line))}

from framework import _protect

class C20(PropertyCheck):
    prop = "C20"
    theorem_file = "Properties/C20.v"
    spec_mode = None

    def run(self):
        """own streams (worker), then the placement-across-restarts part (checks/C20P.py, harness/crash) as a sub-process:
        its VIOLATION / KNOWN-FINDING lines are passed on under this property and its coverage is merged into the evidence"""
        rc = PropertyCheck.run(self)
        import subprocess
        env = dict(os.environ, VERIF_NO_COQCHK="1", VERIF_NO_XCHECK=os.environ.get("VERIF_NO_XCHECK", "0"))
        p = subprocess.run([sys.executable, os.path.join(VERIF, "bin", "check"), "C20P", self.tier], env=env,
                           stdout=subprocess.PIPE, stderr=subprocess.STDOUT, text=True)
        sub_viol = 0
        for line in p.stdout.splitlines():
            if line.startswith("VIOLATION property=C20P"):
                print(line.replace("property=C20P", "property=C20", 1)); sub_viol += 1
            elif line.startswith("C20P "):
                log(line)
        evp = os.path.join(VERIF, "evidence", "C20P.json")
        ev20 = os.path.join(VERIF, "evidence", "C20.json")
        try:
            sub = json.load(open(evp)); main = json.load(open(ev20))
            main["coverage"]["placement_across_restarts"] = {k: sub["coverage"].get(k) for k in
                ("evaluations", "distinct_nontrivial", "streams", "model_impl_divergences", "reference_rejections", "rule", "command_histogram")}
            main["coverage"]["evaluations"] = main["coverage"].get("evaluations", 0) + (sub["coverage"].get("evaluations") or 0)
            main["violations"] = main.get("violations", 0) + sub.get("violations", 0)
            main["wall_s"] = round(main.get("wall_s", 0) + sub.get("wall_s", 0), 2)
            json.dump(main, open(ev20, "w"), indent=1, sort_keys=True)
            os.remove(evp)
        except Exception as e:
            if p.returncode not in (0, 1) or sub_viol == 0 and p.returncode != 0:
                path = write_replay("C20", "placement", {"property": "C20", "kind": "the placement-across-restarts part did not run",
                                    "no_longer_checks": "corr:C20:placement", "output": p.stdout[-3000:], "error": str(e)})
                print("VIOLATION property=C20 replay=%s no-failing-input-found" % path)
                return 1
        fwd_viol = self.forwarded_placement()
        return 1 if (rc or p.returncode != 0 or fwd_viol) else 0

    def forwarded_placement(self):
        """third part — placement through the forwarding hop of a cluster (harness/fsm, model mode raft): writes handed to a
        follower with ForwardCommand, the same bytes for different databases within one gossip round included, must reach the
        leader in the database they were sent to, once each (the strict class of checks/C07.py forward_burst: two nodes,
        commuting writes; the rest is the recorded finding KF-C07-forwarding-not-exactly-once)"""
        import C07 as c07
        rng = random.Random(self.seed + 77)
        scripts = [c07.forward_burst(rng, "cf%d" % i, 2) for i in range(40 if self.tier == "quick" else 600)]
        scripts = [s for s in scripts if not c07.fwd_in_trigger(s)]
        impl = c07.run_impl07(scripts, 1.0); model = c07.run_model07(scripts)
        refs = {s.id: c07.fwd_reference(s) for s in scripts}
        refout = c07.run_model07(list(refs.values()))
        nviol, ndiv = 0, 0
        for s in scripts:
            a = impl.get(s.id, ["<no output>"]); b = model.get(s.id, ["<no output>"])
            v = c07.oracle07(s, a) or c07.fwd_verdict(s, a, refout.get(refs[s.id].id, ["<no output>"]))
            d = c07.compare07(s, a, b)
            if v and nviol < 3:
                path = write_replay("C20", "F_viol%d" % nviol, {"property": "C20", "kind": "implementation rejected by the property's reference (placement through forwarding)",
                                    "script": s.to_json(), "impl_trace": a, "verdict": v, "seed": self.seed})
                print("VIOLATION property=C20 replay=%s" % path)
            elif d and not v and ndiv < 2:
                path = write_replay("C20", "F_corr%d" % ndiv, {"property": "C20", "kind": "model/implementation correspondence no longer checks; the reference accepted the trace",
                                    "no_longer_checks": "corr:C20:forwarding", "script": s.to_json(), "impl_trace": a, "model_trace": b,
                                    "first_difference": {"index": d[0], "impl": d[1], "model": d[2]}, "seed": self.seed})
                print("VIOLATION property=C20 replay=%s no-failing-input-found" % path)
            nviol += bool(v); ndiv += bool(d and not v)
        try:
            ev20 = os.path.join(VERIF, "evidence", "C20.json")
            main = json.load(open(ev20))
            main["coverage"]["placement_through_forwarding"] = {"evaluations": len(scripts), "reference_rejections": nviol, "model_impl_divergences": ndiv,
                "rule": "two-node clusters with ForwardCommand: every write handed to the follower (same bytes for different databases within one gossip round included) is in the leader's and the follower's dataset, in its database, once, after the round; implementation = extracted model line by line"}
            main["coverage"]["evaluations"] = main["coverage"].get("evaluations", 0) + len(scripts)
            main["violations"] = main.get("violations", 0) + nviol + ndiv
            json.dump(main, open(ev20, "w"), indent=1, sort_keys=True)
        except Exception:
            pass
        log("C20 forwarding part: %d scripts, %d rejections, %d divergences" % (len(scripts), nviol, ndiv))
        return nviol + ndiv

    @classmethod
    def replay_file(cls, path):
        if os.path.basename(path).startswith("C20_F_"):
            import C07 as c07
            j = json.load(open(path)); ensure_built()
            sc = script_from_json(j["script"]); ref = c07.fwd_reference(sc)
            a = c07.run_impl07([sc], 2.0).get(sc.id, ["<no output>"]); b = c07.run_model07([sc]).get(sc.id, ["<no output>"])
            v = c07.oracle07(sc, a) or c07.fwd_verdict(sc, a, c07.run_model07([ref]).get(ref.id, ["<no output>"]))
            print("script:"); [print("  ", l) for l in sc.lines]
            print("implementation:", a); print("model:         ", b); print("reference verdict:", v or "accepted")
            return 1 if (v or c07.compare07(sc, a, b)) else 0
        if os.path.basename(path).startswith("C20P_"):
            import importlib
            from replay import replay
            sub = importlib.import_module("C20P").C20P
            return replay(sub, path)
        j = json.load(open(path))
        if "script" not in j:
            print(json.dumps(j, indent=1)); return 0
        ensure_built()
        chk = cls("quick", 0)
        sc = script_from_json(j["script"]); sc.setup_len = j["script"].get("setup_len", 0)
        impl, model, div, rej = chk.evaluate([sc])
        print("script:"); [print("  ", e) for e in sc.events]
        print("implementation:", impl.get(sc.id)); print("model:         ", model.get(sc.id))
        if div: print("model/implementation difference:", json.dumps(div[0][1], default=str))
        print("reference verdict:", json.dumps(rej[0][1], default=str) if rej else "accepted")
        return 1 if (rej or div) else 0

    def make(self, sid, length, malformed=False):
        s = gen_mixed.script(self.rng, sid, length, inplace_ok=True, malformed=malformed, dbs=DBS, conns=(0, 1, 2, 3),
                             advances=False, digest_p=1.0)
        return s

    def streams(self):
        q = self.tier == "quick"
        n = 300 if q else 8000
        hist = [self.make("h%d" % i, 25) for i in range(n)]
        twins = []
        for s in hist[: n // 2]:
            t = Script(s.id + "_twin", s.cfg)
            t.lines = list(s.lines); t.events = list(s.events)
            # extra data in a database no connection of the script selects
            t.lines.insert(0, "P 7 %s %s 0" % (hx("a"), vlist(["foreign"]))); t.events.insert(0, ["preset", 7, "a", vlist(["foreign"]), 0])
            t.lines.insert(0, "P 7 %s %s 0" % (hx("zz"), vstr("foreign"))); t.events.insert(0, ["preset", 7, "zz", vstr("foreign"), 0])
            t.twin_of = s.id
            twins.append(t)
        return {"histories": hist, "twins_with_foreign_data": twins,
                "malformed": [self.make("m%d" % i, 12, True) for i in range(n // 4)]}

    def rule(self):
        return ("histories of data commands of every module, SELECT, SWAPDB, FLUSHDB, FLUSHALL over the embedded caller and three "
                "connections, databases 0 1 2 10 12 (two-digit indices included), a digest after every command. Judged: (1) model vs "
                "implementation, strictly, per database; (2) frame oracle: a command issued with database i selected leaves the section "
                "of every other database byte-identical (entries, deadlines, volatile index) unless it is FLUSHALL; SELECT / SWAPDB change "
                "no data; (3) twins: the same history with extra keys in a database nobody selects must give the same replies. "
                "non-trivial = at least two databases non-empty at the end")

    def nontrivial(self, script, impl_lines):
        d = [l for l in impl_lines if l.startswith("G ")]
        return bool(d) and len([1 for sec in db_sections(d[-1]).values() if "{}" not in sec]) >= 2

    def evaluate(self, scripts):
        impl = run_impl(scripts, self.per_script_timeout())
        model = run_model(scripts)
        div, rej = [], []
        by_id = {s.id: s for s in scripts}
        self.oracle_comparisons = 0
        for s in scripts:
            a = impl.get(s.id, ["<no output>"]); b = model.get(s.id, ["<no output>"])
            d = compare_lines(s, a, b, self.reply_opts, {"with_mem": False})
            if d:
                div.append((s, d))
            r = self.frame_oracle(s, a)
            if r:
                rej.append((s, r))
            tw = getattr(s, "twin_of", None)
            if tw and tw in impl:
                ra = [l for l in a if l.startswith("R ")]; rb = [l for l in impl[tw] if l.startswith("R ")]
                self.oracle_comparisons += 1
                cmds = [e for e in s.events if e[0] == "cmd"]
                def same(i, x, y):
                    if x == y: return True
                    opts = self.reply_opts(cmds[i][2:]) if i < len(cmds) else {}
                    u, v = norm_tree(parse_reply(x[2:]), parse_reply(y[2:]), **opts)
                    if u != v and i < len(cmds) and str(cmds[i][2]).upper() in RANDOM_WORDS:
                        # RANDOMKEY / ZRANDMEMBER draw afresh in each run: only the shape of the reply is comparable
                        w = str(cmds[i][2]).upper()
                        return random_reply_shape(w, parse_reply(x[2:])) == random_reply_shape(w, parse_reply(y[2:]))
                    return u == v
                if len(ra) != len(rb) or not all(same(i, x, y) for i, (x, y) in enumerate(zip(ra, rb))):
                    i = next((i for i, (x, y) in enumerate(zip(ra, rb)) if not same(i, x, y)), min(len(ra), len(rb)))
                    rej.append((s, {"what": "replies depend on the contents of a database that no connection selected",
                                    "index": i, "with_foreign_data": ra[i:i + 1], "without": rb[i:i + 1]}))
        return impl, model, div, rej

    def frame_oracle(self, s, lines):
        outs = [e for e in s.events if e[0] in ("cmd", "digest", "sweep")]
        conn_db = {}
        def dbof(c): return conn_db.get(c, 0)
        prev = None
        oi = 0
        pending = None
        for e in s.events:
            if e[0] == "select_embedded":
                conn_db[0] = e[1]; continue
            if e[0] not in ("cmd", "digest", "sweep"):
                continue
            line = lines[oi] if oi < len(lines) else None
            oi += 1
            if line is None:
                break
            if e[0] == "cmd":
                pending = (e, line, dbof(e[1]))
                w = str(e[2]).upper()
                if line == "R +4f4b":
                    if w == "SELECT" and e[1] != 0 and len(e) == 4:
                        try: conn_db[e[1]] = int(e[3])
                        except ValueError: pass
                    if w == "SWAPDB" and len(e) == 5:
                        try:
                            d1, d2 = int(e[3]), int(e[4])
                            for c in list(conn_db) + [c for c in (1, 2, 3) if c not in conn_db]:
                                if c == 0: continue
                                cur = conn_db.get(c, 0)
                                conn_db[c] = d2 if cur == d1 else d1 if cur == d2 else cur
                        except ValueError: pass
            elif e[0] == "digest":
                cur = db_sections(line)
                if prev is not None and pending is not None:
                    ev, rline, i = pending
                    w = str(ev[2]).upper()
                    self.oracle_comparisons += 1
                    for j in set(prev) | set(cur):
                        if j == i and w not in ("SELECT", "SWAPDB"):
                            continue
                        if w == "FLUSHALL" and len(ev) == 3:
                            continue
                        x, y = prev.get(j, "db%d{}v[]" % j), cur.get(j, "db%d{}v[]" % j)
                        if x != y:
                            return {"what": "a command issued with database %d selected changed database %d" % (i, j),
                                    "command": ev[2:], "connection": ev[1], "before": x, "after": y}
                prev = cur; pending = None
        return None

    def assumptions(self):
        return ["placement of keys across append-only log, snapshots and replication is decided by the checks of C02, C03 and C07 "
                "(their workloads use database indices 0 1 2 10 12)",
                "SWAPDB exchanges the databases of TCP connections only (documented in keyspace.go: the embedded caller is not a client connection)"]
