"""Generators for C08 (max-memory policies): histories of writes / reads / TOUCH / expiry settings / deletes /
flushes over a universe of 6 keys, with the limit taken from the model's own accounting (entry = 24 + value + 16
+ len(key)) so that it is crossed at a known command.  After every command: digest, quiesce (the parked
cache-update goroutines run, in order), digest, cache dump."""
import random
from common import *

NOW = 1700000000000
POLICIES = ["noeviction", "allkeys-lfu", "allkeys-lru", "allkeys-random", "volatile-lfu", "volatile-lru", "volatile-random"]
KEYS = ["a", "b", "c", "d", "e", "f"]

def entry_mem_str(key, val):
    """accounted size of a string entry: sz_time + sz_string + len(value) + sz_string + len(key); an
    integer-looking value is stored as an int (8 bytes)"""
    body = 8 if _is_int(val) else 16 + len(val)
    return 24 + body + 16 + len(key)

def _is_int(v):
    try:
        return str(int(v)) == v
    except ValueError:
        return False

def step(s, *argv):
    s.cmd(0, *argv); s.digest(); s.raw("Q", ["quiesce"]); s.digest(); s.raw("K", ["caches"])

def preset_step(s, db, key, value, dl=0):
    s.preset(db, key, value, dl); s.digest(); s.raw("Q", ["quiesce"]); s.digest(); s.raw("K", ["caches"])

def new_script(sid, policy, maxmem):
    return Script(sid, {"policy": policy, "maxmem": maxmem, "park": 1, "gap": 2})

def val(rng):
    return "v" * rng.choice([1, 3, 10, 10, 20, 40])

def single_key_cmd(rng):
    k = rng.choice(KEYS)
    c = rng.choice(["SET", "SET", "SET", "SETEX", "SETEX", "GET", "GET", "TOUCH", "TOUCH", "EXPIRE", "PERSIST", "DEL",
                    "APPEND", "LPUSH", "INCR", "GETEX", "TTL", "FLUSHALL"])
    if c == "SET": return ["SET", k, val(rng)]
    if c == "SETEX": return ["SET", k, val(rng), "EX", rng.choice(["100", "1000"])]
    if c == "GET": return ["GET", k]
    if c == "TOUCH": return ["TOUCH", k]
    if c == "EXPIRE": return ["EXPIRE", k, rng.choice(["100", "500"])]
    if c == "PERSIST": return ["PERSIST", k]
    if c == "DEL": return ["DEL", k]
    if c == "APPEND": return ["APPEND", k, val(rng)]
    if c == "LPUSH": return ["LPUSH", k, val(rng)]
    if c == "INCR": return ["INCR", k]
    if c == "GETEX": return ["GETEX", k] + rng.choice([[], ["EX", "100"], ["PERSIST"]])
    if c == "TTL": return ["TTL", k]
    if rng.random() < 0.3: return ["FLUSHALL"]
    return ["GET", k]

def multi_key_cmd(rng):
    ks = rng.sample(KEYS, rng.choice([2, 3]))
    # MSET is left out: setValues' goroutine walks its map in Go's order and runs an eviction pass after every
    # key, so which key goes depends on that order (the model uses argument order); see INTEGRATION.md
    c = rng.choice(["MGET", "MGET", "TOUCH", "DEL", "RENAME"])
    if c == "MSET":
        out = ["MSET"]
        for k in ks: out += [k, val(rng)]
        return out
    if c == "RENAME": return ["RENAME", ks[0], ks[1]]
    return [c] + ks

def pick_limit(rng):
    """about 2 .. 5 entries of 10 bytes (67 each)"""
    return rng.choice([100, 140, 150, 200, 210, 280, 300, 350])

def crossing(policy, maxmem, sid):
    """the canonical history: fill with volatile and persistent keys in a known order, read some, then
    write until the limit is crossed"""
    s = new_script(sid, policy, maxmem)
    step(s, "SET", "a", "v" * 10)
    step(s, "SET", "b", "v" * 10, "EX", "1000")
    step(s, "SET", "c", "v" * 10, "EX", "1000")
    step(s, "GET", "a"); step(s, "GET", "b"); step(s, "GET", "b")
    step(s, "SET", "d", "v" * 10)
    step(s, "SET", "e", "v" * 10, "EX", "1000")
    step(s, "TOUCH", "c")
    step(s, "SET", "f", "v" * 30)
    step(s, "GET", "a")
    return s

def exhaustive(prefix):
    """every policy x a ladder of limits (crossed at the 1st .. never) on the canonical history, plus every policy x
    every 2-command tail after a fixed 3-key fill at the limit"""
    out = []
    n = 0
    for p in POLICIES:
        for m in [1, 60, 67, 68, 134, 135, 201, 202, 268, 300, 335, 400, 10000]:
            out.append(crossing(p, m, "%s%d" % (prefix, n))); n += 1
    tails = [["SET", "d", "v" * 10], ["SET", "d", "v" * 10, "EX", "100"], ["GET", "a"], ["GET", "b"], ["TOUCH", "c"], ["TOUCH", "a"],
             ["PERSIST", "b"], ["EXPIRE", "a", "100"], ["DEL", "b"], ["FLUSHALL"], ["SET", "a", "v" * 40], ["GET", "zz"]]
    for p in POLICIES:
        for t1 in tails:
            for t2 in tails[:6]:
                s = new_script("%s%d" % (prefix, n), p, 201); n += 1
                step(s, "SET", "a", "v" * 10); step(s, "SET", "b", "v" * 10, "EX", "1000"); step(s, "SET", "c", "v" * 10, "EX", "1000")
                step(s, *t1); step(s, *t2)
                out.append(s)
    return out

def random_scripts(rng, count, length, prefix, multi=False, dbs=(0,)):
    out = []
    for i in range(count):
        p = rng.choice(POLICIES)
        s = new_script("%s%d" % (prefix, i), p, pick_limit(rng))
        if len(dbs) > 1:
            for db in dbs[1:]:
                for k in rng.sample(KEYS, rng.choice([0, 1, 2])):
                    preset_step(s, db, k, vstr(val(rng)), rng.choice([0, NOW + 500000]))
        for _ in range(rng.randint(3, length)):
            r = rng.random()
            if r < 0.04:
                s.advance(rng.choice([10, 200000, 2000000]))
            elif multi and r < 0.35:
                step(s, *multi_key_cmd(rng))
            else:
                step(s, *single_key_cmd(rng))
        s.oracle_only = multi or len(dbs) > 1
        out.append(s)
    return out

def malformed(rng, count, prefix):
    out = []
    for i in range(count):
        p = rng.choice(POLICIES)
        s = new_script("%s%d" % (prefix, i), p, pick_limit(rng))
        for _ in range(rng.randint(2, 8)):
            c = rng.choice([["TOUCH"], ["SET", "a"], ["SET"], ["GET"], ["EXPIRE", "a", "zz"], ["SET", "a", "v" * 10, "EX", "zz"],
                            ["SET", "b", "v" * 10], ["SET", "c", "v" * 20, "EX", "100"], ["TOUCH", "a", "a"], ["GET", "b"], ["NOSUCH", "a"]])
            step(s, *c)
        out.append(s)
    return out
