"""C15 — list commands implement a sequence."""
import re
from common import *
from framework import *
import gen_list

class C15(PropertyCheck):
    prop = "C15"
    theorem_file = "Properties/C15.v"
    spec_mode = "spec15"

    def streams(self):
        q = self.tier == "quick"
        rng = self.rng
        return {
            "exhaustive": gen_list.exhaustive(1 if q else 2, "x"),
            "random": gen_list.random_scripts(rng, 400 if q else 6000, 30, False, "r"),
            "malformed": gen_list.random_scripts(rng, 150 if q else 2000, 12, True, "m"),
        }

    def exhaustive_note(self):
        d = 1 if self.tier == "quick" else 2
        return "every command sequence of length <= %d over a %d-command alphabet x %d preset datasets" % (
            d, len(gen_list.alphabet()), len(gen_list.PRESETS))

    def rule(self):
        return ("scripts = preset dataset (lists, other types, emptied lists) + list commands + final LRANGE/LLEN reads + digest; "
                "three streams: exhaustive small scope over boundary indices/counts, random histories over 3 keys, malformed "
                "(wrong arity, non-integers). distinct = distinct canonical script text; non-trivial = at least one successful list write")

    def nontrivial(self, script, impl_lines):
        writes = ("LPUSH", "RPUSH", "LPUSHX", "RPUSHX", "LPOP", "RPOP", "LSET", "LTRIM", "LREM", "LMOVE")
        cmds = [e for e in script.events if e[0] in ("cmd", "digest")]
        for e, l in zip(cmds, impl_lines):
            if e[0] == "cmd" and str(e[2]).upper() in writes and l.startswith("R ") and l not in ("R -", "R !"):
                return True
        return False

    def _split(self, script):
        """(index in output lines of the digest ending the setup phase, [(line, event)] of the commands after it)"""
        outs = [(l, e) for l, e in zip(script.lines, script.events) if e[0] in ("cmd", "digest", "sweep")]
        for i, (l, e) in enumerate(outs):
            if e[0] == "digest":
                return i, [(l, e) for l, e in outs[i + 1:] if e[0] == "cmd"], outs
        return None, [], outs

    def spec_script(self, script, impl_lines):
        """Initial view = the implementation's digest after the setup phase; then the list commands."""
        i0, cmds, _ = self._split(script)
        if i0 is None or len(impl_lines) <= i0 or not impl_lines[i0].startswith("G "):
            return None
        dg = parse_digest(impl_lines[i0])
        sp = Script(script.id + "_spec")
        now = int(script.cfg.get("now", DEFAULT_NOW))
        for k, (v, dl) in dg["dbs"].get(0, {}).items():
            if dl != 0 and dl < now:
                continue
            if v.startswith("l["):
                body = v[2:-1]
                sp.raw("V %s l %s" % (k, body) if body != "" else "V %s l" % k)
            else:
                sp.raw("V %s o" % k)
        for line, ev in cmds:
            sp.raw(line, ev)
        return sp

    def spec_compare(self, script, impl_lines, spec_lines):
        i0, cmds, outs = self._split(script)
        if i0 is None:
            return None
        a = [l for l, (_, e) in zip(impl_lines[i0 + 1:], outs[i0 + 1:]) if e[0] == "cmd"]
        if len(impl_lines) < len(outs):
            a = [l for l in impl_lines[i0 + 1:] if not l.startswith("G ")]
        for i in range(max(len(a), len(spec_lines))):
            x = a[i] if i < len(a) else "<missing>"
            y = spec_lines[i] if i < len(spec_lines) else "<missing>"
            if x != y:
                return {"index": i, "command": cmds[i][1][2:] if i < len(cmds) else None, "impl": x, "reference": y}
        return None

    def assumptions(self):
        return ["no memory limit configured (st_maxmem = 0): refusals at the limit belong to C08",
                "no clock advance inside a C15 script (expiry transparency is C04); keys may carry deadlines",
                "the reference adopts, where statement and docs are silent: LPUSH puts its arguments at the head in argument order; "
                "a list emptied by pops stays as an empty list; LMOVE replies +OK and errors when either key is missing or the source is empty"]

if __name__ == "__main__":
    pass
