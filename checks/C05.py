"""C05 — Commands are atomic: concurrent clients see a sequential order.

Tie between coq/Model/Conc.v and the implementation: build/sched (harness/sched/main.go) parks every command
goroutine at the yield points of the server (cmd.enter, ks.*) and enumerates ALL interleavings of the threads
of a job (2 commands in the quick tier, 3 in the thorough tier; state copies and sampler passes as further
threads); each schedule is replayed identically on run_conc (extracted, runner mode `conc`) and compared
(replies, copied states, final digest); each implementation outcome must also be one of the outcomes of the
serial orders run on the same build (the property's own oracle); and with the first command parked inside a
primitive a second one must not get past its entry (the observable meaning of the command lock)."""
import itertools, tempfile
from concurrent.futures import ThreadPoolExecutor
from common import *
import framework
from framework import *

NOW = 1700000000000

# preset keyspace of database 0 (canonical value text, deadline)
PRESETS = [
    ("n", vint(5), 0), ("s", vstr("ab"), 0), ("l", vlist(["a", "b", "c"]), 0), ("l2", vlist(["x"]), 0),
    ("h", vhash({"f": vstr("v"), "g": vint(1)}), 0), ("S", vset(["a", "b"]), 0), ("S2", vset(["b", "c"]), 0),
    ("z", vzset({"a": "1/1", "b": "2/1"}), 0),
    ("e", vstr("old"), NOW - 1000), ("v", vstr("vol"), NOW + 100000),
]

# command families; every command here is modelled by handler_of
CORE = [
    ["INCR", "n"], ["APPEND", "s", "x"], ["SET", "n", "9"], ["GET", "n"],
    ["MSET", "n", "1", "s", "2"], ["MGET", "n", "s"], ["DEL", "n", "s"], ["RENAME", "n", "s"],
    ["SET", "e", "new"], ["EXPIRE", "s", "100"],
    ["LPUSH", "l", "q"], ["RPOP", "l"], ["LMOVE", "l", "l2", "LEFT", "RIGHT"], ["LRANGE", "l", "0", "-1"],
    ["HSET", "h", "f", "w"], ["HINCRBY", "h", "g", "2"], ["HDEL", "h", "f"],
    ["SADD", "S", "c"], ["SMOVE", "S", "S2", "a"], ["SUNIONSTORE", "n", "S", "S2"],
    ["ZADD", "z", "3", "c"], ["ZINCRBY", "z", "2", "a"],
    ["FLUSHDB"],
]
EXTRA = [
    ["DECR", "n"], ["INCRBY", "n", "3"], ["GETDEL", "n"], ["GET", "e"], ["PERSIST", "v"], ["LSET", "l", "0", "q"],
    ["HGET", "h", "f"], ["SREM", "S", "a"], ["SCARD", "S"], ["ZREM", "z", "a"], ["ZCARD", "z"],
    ["DECRBY", "n", "2"], ["SETRANGE", "s", "1", "Z"], ["STRLEN", "s"], ["GETRANGE", "s", "0", "-1"], ["SET", "s", "q"],
    ["RENAME", "s", "n"], ["TTL", "v"], ["EXPIRE", "v", "5"], ["TYPE", "l"], ["EXISTS", "n"],
    ["RPUSH", "l", "q"], ["LPOP", "l"], ["LLEN", "l"], ["LTRIM", "l", "0", "1"], ["LREM", "l", "1", "a"], ["LINDEX", "l", "0"],
    ["LMOVE", "l2", "l", "RIGHT", "LEFT"], ["HSET", "h", "k2", "1"], ["HLEN", "h"], ["HEXISTS", "h", "f"], ["HGETALL", "h"],
    ["SISMEMBER", "S", "a"], ["SMEMBERS", "S"], ["SINTERSTORE", "n", "S", "S2"], ["SDIFFSTORE", "S", "S", "S2"],
    ["ZSCORE", "z", "a"], ["ZRANGE", "z", "0", "-1"], ["ZPOPMIN", "z"], ["ZCOUNT", "z", "0", "5"],
    ["FLUSHALL"], ["INCR", "other"], ["LPUSH", "other", "a"], ["NOSUCHCOMMAND"], ["INCR"],
]
RANDOM_WORDS = {"RANDOMKEY", "ZRANDMEMBER", "SRANDMEMBER", "HRANDFIELD", "SPOP"}
UNMODELLED = [["RANDOMKEY"], ["TOUCH", "n", "s"], ["OBJECTFREQ", "n"], ["OBJECTIDLETIME", "n"], ["ZRANDMEMBER", "z"]]
UNORDERED = {"SMEMBERS": False, "HGETALL": True, "HKEYS": False, "HVALS": False, "SUNION": False, "SINTER": False, "SDIFF": False}

def hexargs(argv):
    return " ".join(hx(a) for a in argv)

class Job:
    def __init__(self, jid, threads, cfg=None):
        """threads: list of ("cmd", argv) | ("copy",) | ("sweep", db)"""
        self.id, self.threads, self.cfg = jid, threads, dict(cfg or {})
    def presets(self):
        """the preset keys the threads mention (all volatile ones when the sampler runs): keeps digests short"""
        used = {a for t in self.threads if t[0] == "cmd" for a in t[1][1:]}
        if any(t[0] == "sweep" for t in self.threads):
            used |= {"e", "v"}
        if any(t[0] == "cmd" and t[1][0].upper() in ("FLUSHDB", "FLUSHALL") for t in self.threads) or not used:
            used |= {"n", "l"}
        return [(k, v, dl) for k, v, dl in PRESETS if k in used]
    def setup_lines(self):
        return ["P 0 %s %s %d" % (hx(k), v, dl) for k, v, dl in self.presets()]
    def thread_lines(self):
        out = []
        for i, t in enumerate(self.threads):
            if t[0] == "cmd":
                out.append("T %d %d %s" % (i, i + 1, hexargs(t[1])))
            elif t[0] == "copy":
                out.append("TC %d" % i)
            elif t[0] == "copylate":
                out.append("TCL %d" % i)
            elif t[0] == "api":
                out.append("TA %d %s" % (i, " ".join(str(x) for x in t[1])))
            else:
                out.append("TW %d %d" % (i, t[1]))
        return out
    def header(self, extra=None):
        cfg = dict(self.cfg, **(extra or {}))
        cfg.setdefault("policy", "noeviction")
        return "S %s %s" % (self.id, " ".join("%s=%s" % kv for kv in sorted(cfg.items())))
    def text(self, extra=None, more=()):
        return "\n".join([self.header(extra)] + self.setup_lines() + self.thread_lines() + list(more) + ["E"]) + "\n"
    def has_api(self):
        """threads the model of the lock protocol cannot replay (embedded-API calls, commands without a model handler)"""
        return any(t[0] == "api" or (t[0] == "cmd" and t[1] and [str(t[1][0]).upper()] + [] in [[u[0]] for u in UNMODELLED]) for t in self.threads)
    def describe(self):
        return [(" ".join(str(x) for x in t[1]) if t[0] in ("cmd", "api") else t[0] + ("" if len(t) < 2 else " %s" % t[1])) for t in self.threads]
    def to_json(self):
        return {"id": self.id, "threads": [list(t) for t in self.threads], "cfg": self.cfg}

def job_from_json(j):
    return Job(j["id"], [tuple(t) for t in j["threads"]], j.get("cfg"))

def run_chunk(exe_args, jobs, extra, more, timeout):
    """-> dict id -> lines; a job without complete output gets ["HUNG"] / ["DIED"]"""
    results = {}
    todo = list(jobs)
    while todo:
        text = "".join(j.text(extra, more.get(j.id, ())) for j in todo)
        try:
            p = subprocess.run(exe_args, input=text, stdout=subprocess.PIPE, stderr=subprocess.PIPE, text=True,
                               timeout=timeout)
            stdout, hung = p.stdout, False
        except subprocess.TimeoutExpired as e:
            stdout = e.stdout.decode() if isinstance(e.stdout, bytes) else (e.stdout or "")
            hung = True
        done, partial = parse_outputs(stdout)
        results.update(done)
        remaining = [j for j in todo if j.id not in done]
        if not remaining:
            break
        bad = remaining[0]
        lines = list(partial[1]) if partial and partial[0] == bad.id else []
        results[bad.id] = lines + ["HUNG" if hung else "DIED"]
        todo = remaining[1:]
    return results

def run_many(exe_args, jobs, extra=None, more=None, nproc=6, timeout=600):
    if not jobs:
        return {}
    more = more or {}
    n = min(nproc, max(1, len(jobs) // 8 + 1))
    chunks = [jobs[i::n] for i in range(n)]
    res = {}
    with ThreadPoolExecutor(n) as ex:
        for r in ex.map(lambda c: run_chunk(exe_args, c, extra, more, timeout), chunks):
            res.update(r)
    return res

def split_line(line):
    """'Q sched | outs | digest' -> (kind, sched, {tid: outcome}, digest)"""
    kind, rest = line[0], line[2:]
    parts = rest.split(" | ")
    if len(parts) != 3:
        return kind, rest, None, None
    outs = {}
    for tok in parts[1].split(" "):
        t, _, o = tok.partition(":")
        outs[int(t)] = o
    return kind, parts[0], outs, parts[2]

def outcome_eq(job, tid, a, b):
    """equality of two outcomes of thread tid; replies of unordered commands are compared as multisets, floats as numbers"""
    if a == b:
        return True
    t = job.threads[tid]
    if t[0] == "cmd" and t[1] and t[1][0].upper() in RANDOM_WORDS:
        # a legitimate random choice: only the shape (error / nil / bulk / array) is compared
        shape = lambda o: "-" if o in ("-", "!") else ("_" if o == "_" else o[:1])
        return shape(a) == shape(b)
    if a.startswith("snap:") or b.startswith("snap:"):
        f = lambda o: norm_digest(" " + o[5:].replace("_", " "), with_mem=False).strip()
        return a[:5] == b[:5] and f(a) == f(b)
    x, y = parse_reply(a.replace("_", " ")), parse_reply(b.replace("_", " "))
    opts = {}
    if t[0] == "cmd" and t[1] and t[1][0].upper() in UNORDERED:
        opts = {"unordered": True, "pairs": UNORDERED[t[1][0].upper()]}
    x, y = norm_tree(x, y, **opts)
    if x == y:
        return True
    y2, x2 = norm_tree(parse_reply(b.replace("_", " ")), parse_reply(a.replace("_", " ")), **opts)
    return x2 == y2

def same_outcomes(job, a, b):
    if a is None or b is None or set(a) != set(b):
        return False
    return all(outcome_eq(job, t, a[t], b[t]) for t in a)

def dataset(digest):
    """what the property calls the final dataset: keys, values, deadlines (no memory figure, no index order)"""
    return norm_digest("G " + digest, with_mem=False, with_vol=False)

def view_dataset(digest):
    """the same without entries whose deadline has passed (a sampler pass that ran or not is invisible)"""
    d = dataset(digest)
    def live(m):
        dl = int(m.group(2))
        return "" if dl != 0 and dl < NOW else m.group(0)
    d = re.sub(r" ?([0-9a-f\-]+=[^ }]*@(\d+))", lambda m: live(m), d)
    return re.sub(r"\{ +", "{", d)

class C05(PropertyCheck):
    prop = "C05"
    theorem_file = "Properties/C05.v"
    level = "proof"
    trusted_extra = ["schedule controller harness/sched/main.go (parks goroutines at verif yield points; goroutine ids from runtime.Stack)",
                     "yield points of fixes/hooks-c05.diff are at the entry of every keyspace primitive (reviewed by hand)"]

    def jobs(self):
        q = self.tier == "quick"
        rng = self.rng
        jobs = []
        core = CORE
        # every unordered pair of the core families (a command with itself included)
        for i, a in enumerate(core):
            for j in range(i, len(core)):
                jobs.append(Job("p%d_%d" % (i, j), [("cmd", a), ("cmd", core[j])]))
        pool = core + EXTRA
        # the other commands against a sample of partners (all of them in the thorough tier)
        for i, a in enumerate(EXTRA):
            partners = pool if not q else rng.sample(pool, 3)
            for k, b in enumerate(partners):
                jobs.append(Job("x%d_%d" % (i, k), [("cmd", a), ("cmd", b)]))
        # state copies and sampler passes alongside writers
        writers = [c for c in pool if c[0] in ("INCR", "MSET", "RENAME", "LMOVE", "SUNIONSTORE", "FLUSHDB", "DEL", "SET", "LPUSH",
                                               "HSET", "SADD", "ZADD", "EXPIRE", "PERSIST", "GET", "FLUSHALL", "SMOVE")]
        for i, a in enumerate(writers):
            jobs.append(Job("c%d" % i, [("cmd", a), ("copy",)]))
            jobs.append(Job("w%d" % i, [("cmd", a), ("sweep", 0)]))
        for i, (a, b) in enumerate(itertools.combinations(writers[:6] if q else writers, 2)):
            jobs.append(Job("cw%d" % i, [("cmd", a), ("cmd", b), ("copy",), ("sweep", 0)] if not q or i % 4 == 0 else
                            [("cmd", a), ("cmd", b), ("sweep", 0)], {"max": 150 if q else 400}))
        # a read in flight, a state copy queued behind it, a write arriving: whoever gets the command lock next, everybody
        # finishes (a flag that a waiting writer has already raised must not stop the copy that holds the lock)
        for i, (r_, w_) in enumerate([(["GET", "n"], ["SET", "n", "9"]), (["LRANGE", "l", "0", "-1"], ["LPUSH", "l", "q"]),
                                      (["MGET", "n", "s"], ["INCR", "n"])]):
            jobs.append(Job("rcw%d" % i, [("cmd", r_), ("copy",), ("cmd", w_)], {"max": 300 if q else 1000}))
        # a state copy that is rendered only after the other command has finished (regression of the repaired
        # defect "the copy shares sets / sorted sets / hashes with the store by pointer"): the model's copy is a value
        for i, a in enumerate([c for c in pool if c[0] in ("SADD", "SREM", "SMOVE", "ZADD", "ZINCRBY", "ZREM", "HSET", "HDEL", "LPUSH", "APPEND")]):
            jobs.append(Job("cl%d" % i, [("cmd", a), ("copylate",)]))
        # ... and two commands after the copy: one that frees capacity at the end of a stored list (the sub-slice keeps the
        # array), one that fills it again — a copy that shares the array with the store shows an element the list never had
        for i, (a, b) in enumerate([(["RPOP", "l", "2"], ["RPUSH", "l", "x"]), (["LTRIM", "l", "0", "0"], ["RPUSH", "l", "y", "z"]),
                                    (["RPOP", "l"], ["RPUSH", "l", "w"])]):
            jobs.append(Job("cl2_%d" % i, [("cmd", a), ("cmd", b), ("copylate",)], {"max": 150 if q else 400}))
        # calls of the embedded API that do not go through handleCommand (SwapDBs, Flush) against commands on connections.
        # They used to bypass the command lock (repaired: GET lost its key to a concurrent Flush between keysExist and
        # getValues); they are not programs of the model, so they are judged by the serial-order oracle and by "no thread
        # is ever blocked by a parked one" (every yield point is a place where no lock but the command lock is held)
        for i, a in enumerate([["swapdbs", 0, 1], ["swapdbs", 1, 2], ["flush", 0], ["flush", -1]]):
            for k, b in enumerate([["SELECT", "1"], ["SWAPDB", "0", "1"], ["SET", "k", "v"], ["GET", "n"], ["FLUSHDB"], ["INCR", "n"]]):
                jobs.append(Job("api%d_%d" % (i, k), [("api", a), ("cmd", b)]))
        # an expired entry still in the store (key e): commands that read it through getValues directly against writers of the
        # same key — whatever is deferred to the goroutines started by the read must not undo the later write
        for i, a in enumerate([["MGET", "e", "n"], ["INCR", "e"], ["RENAME", "e", "x"], ["DECRBY", "e", "2"], ["GETDEL", "e"], ["LPUSH", "e", "q"]]):
            for k, b in enumerate([["SET", "e", "new"], ["MSET", "e", "1", "s", "2"], ["INCR", "e"], ["APPEND", "e", "x"]]):
                jobs.append(Job("ex%d_%d" % (i, k), [("cmd", a), ("cmd", b)]))
        # commands without a model handler (judged by the serial-order oracle and the no-thread-blocked-by-a-parked-one rule only)
        # next to the actors that take the store lock without the command lock
        for i, a in enumerate(UNMODELLED):
            jobs.append(Job("um%d_s" % i, [("cmd", a), ("sweep", 0)]))
            jobs.append(Job("um%d_c" % i, [("cmd", a), ("copy",)]))
            jobs.append(Job("um%d_w" % i, [("cmd", a), ("cmd", ["SET", "n", "9"])]))
        # three commands
        trip = list(itertools.combinations(range(len(core)), 3))
        rng.shuffle(trip)
        for n, (i, j, k) in enumerate(trip[: (12 if q else 1200)]):
            jobs.append(Job("t%d_%d_%d" % (i, j, k), [("cmd", core[i]), ("cmd", core[j]), ("cmd", core[k])]))
        return jobs

    # -----------------------------------------------------------------------------------------
    def evaluate_jobs(self, jobs, mode_hint=None):
        """runs implementation and model; returns (impl, model, findings) — findings: list of dicts"""
        extra = {"now": NOW}
        if mode_hint:
            extra["mode"] = mode_hint
        impl = run_many([os.path.join(BUILD, "sched")], jobs, extra, nproc=6, timeout=900)
        more, modes = {}, {}
        for j in jobs:
            ls = impl.get(j.id, [])
            modes[j.id] = next((l[2:] for l in ls if l.startswith("M ")), "lock")
            more[j.id] = [l.split(" | ")[0] for l in ls if l[:2] in ("Q ", "O ")]
        by_mode = {}
        for j in jobs:
            if not j.has_api():
                by_mode.setdefault(modes[j.id], []).append(j)
        model = {}
        for m, js in by_mode.items():
            model.update(run_many([os.path.join(BUILD, "modelrun"), "conc"], js, dict(extra, mode=m), more, nproc=6, timeout=900))
        findings = []
        stats = {"schedules": 0, "serial_orders": 0, "probes_held": 0, "probes_skipped": 0, "compared": 0, "shape_skipped": 0,
                 "nonserial": 0}
        for j in jobs:
            ils, mls = impl.get(j.id, ["DIED"]), model.get(j.id, [])
            mode = modes[j.id]
            if mode != "lock":
                findings.append({"kind": "nolock", "job": j, "what": "a second INCR got past cmd.enter while the first was parked "
                                 "inside a primitive: commands are not mutually exclusive", "weak": True})
            iq = [split_line(l) for l in ils if l[:2] in ("Q ", "O ")]
            mq = {(k, s): (o, d) for k, s, o, d in (split_line(l) for l in mls if l[:2] in ("Q ", "O "))}
            mh = {l.split(" ")[1] for l in mls if l.startswith("H ")}
            serial = [(s, o, d) for k, s, o, d in iq if k == "O"]
            for l in ils:
                if mode != "lock" and l.startswith("H ") and "NOTENABLED" in l:
                    continue   # without the lock a handler's steps depend on Go map order: a prefix does not replay identically
                if l in ("HUNG", "DIED") or l.startswith("H "):
                    findings.append({"kind": "hung", "job": j, "what": "implementation run did not complete: " + l, "line": l})
                if l.startswith("X broken") and mode == "lock":
                    findings.append({"kind": "exclusion", "job": j, "what": "with one command parked inside a primitive a second one "
                                     "got past its entry (%s)" % l[2:], "line": l})
                if l.startswith("X held"): stats["probes_held"] += 1
                if l.startswith("X skip"): stats["probes_skipped"] += 1
            for k, s, o, d in iq:
                if o is None:
                    continue
                if k == "Q":
                    stats["schedules"] += 1
                    # the property's own oracle: the outcome of some serial order
                    has_sweep = any(t[0] == "sweep" for t in j.threads)
                    ds = view_dataset(d) if has_sweep else dataset(d)
                    ok = any(same_outcomes(j, o, so) and ds == (view_dataset(sd) if has_sweep else dataset(sd)) for _, so, sd in serial)
                    if not ok:
                        stats["nonserial"] += 1
                        findings.append({"kind": "nonserial", "job": j, "sched": s, "impl": {"outcomes": o, "digest": d},
                                         "serial": [{"order": ss, "outcomes": so, "digest": sd} for ss, so, sd in serial],
                                         "what": "replies and final dataset of this schedule equal those of no serial order"})
                else:
                    stats["serial_orders"] += 1
                # the model, schedule by schedule
                if j.has_api():
                    stats["api_schedules"] = stats.get("api_schedules", 0) + 1
                elif (k, s) in mq:
                    mo, md = mq[(k, s)]
                    stats["compared"] += 1
                    if not (same_outcomes(j, o, mo) and norm_digest("G " + d, with_mem=False) == norm_digest("G " + md, with_mem=False)):
                        if mode != "lock":
                            # without the command lock the order in which a handler ranges over a Go map (DEL, MSET ...) shows;
                            # the model of the unlocked code fixes one order: counted, not reported
                            stats["nolock_differences"] = stats.get("nolock_differences", 0) + 1
                            continue
                        findings.append({"kind": "corr", "job": j, "sched": s, "line_kind": k, "impl": {"outcomes": o, "digest": d},
                                         "model": {"outcomes": mo, "digest": md},
                                         "what": "model and implementation differ on this schedule"})
                elif mode != "lock":
                    stats["shape_skipped"] += 1   # in-place mutation (SADD ...) has no primitive of its own in the code
                else:
                    findings.append({"kind": "corr", "job": j, "sched": s, "line_kind": k, "impl": {"outcomes": o, "digest": d},
                                     "model": [l for l in mls if s in l][:2],
                                     "what": "the model cannot replay this schedule"})
        return impl, model, findings, stats

    def run(self):
        t0 = time.time()
        prop = self.prop
        rd = os.path.join(VERIF, "replays")
        if os.path.isdir(rd):
            for f in os.listdir(rd):
                if f.startswith(prop + "_"):
                    os.remove(os.path.join(rd, f))
        try:
            coq_ok, info = ensure_built(clean=(self.tier == "thorough" and os.environ.get("VERIF_CLEAN") == "1"))
        except BuildError as e:
            path = write_replay(prop, "build", {"failed": e.what, "output": e.output[-4000:]})
            print("VIOLATION property=%s replay=%s no-failing-input-found" % (prop, path))
            write_evidence(prop, self.tier, self.seed,
                           {"obligations": 1, "discharged": 0, "checker_cmd": "go build -tags verif / coq make",
                            "trusted_base": [], "explanation": "build failed: " + e.what}, [], time.time() - t0, 1, self.level)
            return 1
        cone = coq_cone(self.theorem_file)
        n_obl, names = count_obligations(cone)
        n_dis = discharged(cone) if coq_ok else 0
        bad = forbidden_scan()
        ass_ok, ass_text = assumptions_of("C05", "")
        n_print = len(re.findall(r"^\s*Print Assumptions", open(os.path.join(COQ, self.theorem_file)).read(), re.M))
        closed = ass_text.count("Closed under the global context")
        axioms = sorted(set(re.findall(r"^(\S+)\s*$", "\n".join(l for l in ass_text.splitlines() if "functional_extensionality" in l), re.M)))
        proof_broken = None
        if not coq_ok:
            m = re.search(r'File "\./([^"]+)", line (\d+)', info["coq_log"])
            proof_broken = "coq make failed at %s:%s" % (m.group(1), m.group(2)) if m else "coq make failed"
        elif bad:
            proof_broken = "forbidden construct: " + bad[0]
        elif not ass_ok:
            proof_broken = "theorem file %s does not check" % self.theorem_file
        elif closed < n_print - 1:
            proof_broken = "a property theorem depends on an axiom other than functional extensionality"
        jobs = self.jobs()
        impl, model, findings, stats = self.evaluate_jobs(jobs)
        # free-running stress under the race detector (thorough tier, supporting evidence)
        race = self.race_stress() if self.tier == "thorough" else None
        nviol = 0
        shown = {}
        order = {"nonserial": 0, "exclusion": 1, "hung": 2, "corr": 3, "nolock": 4}
        findings.sort(key=lambda f: (order[f["kind"]], len(f.get("sched", "")), f["job"].id))
        strong = [f for f in findings if not f.get("weak")]
        for f in (strong or findings):
            k = f["kind"]
            if shown.get(k, 0) >= 2:
                continue
            shown[k] = shown.get(k, 0) + 1
            j = f["job"]
            obj = {"property": prop, "kind": k, "what": f["what"], "job": j.to_json(), "threads": j.describe(),
                   "presets": [[k_, v, dl] for k_, v, dl in j.presets()], "seed": self.seed}
            for key in ("sched", "impl", "model", "serial", "line", "line_kind"):
                if key in f:
                    obj[key] = f[key]
            if "sched" in f:
                obj["schedule_meaning"] = "thread ids in the order they were released; each release runs the thread up to its next yield point (cmd.enter, ks.*)"
            path = write_replay(prop, "%s%d" % (k, shown[k] - 1), obj)
            suffix = " no-failing-input-found" if k == "corr" and not any(x["kind"] in ("nonserial", "exclusion", "hung") for x in findings) else ""
            print("VIOLATION property=%s replay=%s%s" % (prop, path, suffix))
            nviol += 1
        if proof_broken and nviol == 0:
            path = write_replay(prop, "proof", {"property": prop, "kind": "proof obligation no longer checks",
                                                "no_longer_checks": proof_broken, "log_tail": info.get("coq_log", "")[-3000:]})
            print("VIOLATION property=%s replay=%s no-failing-input-found" % (prop, path))
            nviol += 1
        notes = []
        for kf in known_findings(prop):
            still = self.replay_known(kf)
            if still:
                print("KNOWN-FINDING: property=%s %s" % (prop, kf["what"]))
                notes.append("known finding %s reproduces" % kf["id"])
            else:
                notes.append("known finding %s no longer reproduces" % kf["id"])
        hist = {}
        for j in jobs:
            for t in j.threads:
                nm = t[1][0].upper() if t[0] == "cmd" else t[0]
                hist[nm] = hist.get(nm, 0) + 1
        distinct = len({(tuple(j.describe()), l.split(" | ")[0]) for j in jobs for l in impl.get(j.id, []) if l.startswith("Q ")
                        and len(set(l.split(" | ")[0][2:].split(","))) > 1})
        mid = jobs[len(jobs) // 2]
        cov = {
            "obligations": n_obl, "discharged": n_dis,
            "checker_cmd": "cd /verif/coq && make -j%d (coqc 8.16.1, full .vo build) ; coqc Properties/C05.v ; grep gate for Admitted/Axiom/…" % NCPU,
            "trusted_base": self.trusted_base(ass_text, closed, n_print, axioms),
            "theorems": [n for n in names if n.startswith(prop)],
            "print_assumptions": {"statements": n_print, "closed_under_global_context": closed,
                                  "axioms": ["FunctionalExtensionality.functional_extensionality_dep (C05_serializable_with_expiry only)"] if closed < n_print else []},
            "evaluations": stats["schedules"] + stats["serial_orders"], "distinct_nontrivial": distinct,
            "rule": ("jobs = sets of 2-4 threads (commands of every family on a shared preset keyspace, state copies, sampler passes); for each job ALL "
                     "maximal schedules are enumerated by the yield-point controller (depth first, each replayed on a flushed instance) plus all serial "
                     "orders; non-trivial/distinct = distinct (job, schedule) in which at least two threads take steps"),
            "traces_validated_against_impl": stats["compared"], "schedules": stats["schedules"], "serial_orders": stats["serial_orders"],
            "jobs": len(jobs), "mutual_exclusion_probes_held": stats["probes_held"], "probes_skipped_no_primitive": stats["probes_skipped"],
            "model_impl_divergences": sum(1 for f in findings if f["kind"] == "corr"),
            "reference_rejections": sum(1 for f in findings if f["kind"] in ("nonserial", "exclusion", "hung")),
            "command_histogram": hist,
            "samples": [{"job": mid.describe(), "impl": impl.get(mid.id, [])[:8], "model": model.get(mid.id, [])[:6]}],
            "exhaustive": True,
            "exhaustive_scope": "all interleavings at yield-point granularity of every generated job (jobs themselves are a fixed list + a seeded sample of triples); "
                                "schedule count per job capped at 400 (reported as U lines: %d)" % sum(1 for j in jobs for l in impl.get(j.id, []) if l.startswith("U ")),
            "race_stress": race, "notes": notes, "coq_make_s": info.get("coq_make_s"),
        }
        write_evidence(prop, self.tier, self.seed, cov, self.assumptions(), time.time() - t0, nviol, self.level)
        log("C05 %s: %d jobs, %d schedules, %d serial orders, %d compared with the model, %d findings, %d obligations (%d discharged), %.1fs" %
            (self.tier, len(jobs), stats["schedules"], stats["serial_orders"], stats["compared"], len(findings), n_obl, n_dis, time.time() - t0))
        return 1 if nviol else 0

    def race_stress(self):
        """go build -race of the harness, free-running (controller off) serial/parallel jobs: supporting evidence only"""
        exe = os.path.join(BUILD, "sched-race")
        h = os.path.join(VERIF, "harness")
        p = sh(["go", "build", "-race", "-tags", "verif", "-o", exe, "./sched"], cwd=h, env=GOENV, check=False, timeout=1200)
        if p.returncode != 0:
            return {"built": False, "output": p.stdout[-500:]}
        jobs = [Job("r%d" % i, [("cmd", a), ("cmd", b), ("copy",), ("sweep", 0)], {"probe": 0, "free": 10})
                for i, (a, b) in enumerate(itertools.combinations(CORE, 2))][:250]
        text = "".join(j.text({"now": NOW}) for j in jobs)
        try:
            q = subprocess.run([exe], input=text, stdout=subprocess.PIPE, stderr=subprocess.PIPE, text=True, timeout=900)
            races = q.stderr.count("WARNING: DATA RACE")
            return {"built": True, "jobs": len(jobs), "data_race_reports": races, "exit": q.returncode, "first_report": q.stderr[:1500] if races else ""}
        except subprocess.TimeoutExpired:
            return {"built": True, "hung": True}

    def replay_known(self, kf):
        """KF-C05-1: a state copy shares sets / sorted sets / hashes with the store by pointer"""
        w = kf.get("witness", {})
        job = Job("kf", [tuple(t) if isinstance(t, list) and t[0] != "cmd" else ("cmd", t[1]) for t in w.get("threads", [])], {"probe": 0})
        more = {job.id: ["R " + w.get("sched", "-")]}
        im = run_many([os.path.join(BUILD, "sched")], [job], {"now": NOW}, more).get(job.id, [])
        mo = run_many([os.path.join(BUILD, "modelrun"), "conc"], [job], {"now": NOW, "mode": "lock"},
                      {job.id: [l.split(" | ")[0] for l in im if l.startswith("Q ")]}).get(job.id, [])
        iq = [split_line(l) for l in im if l.startswith("Q ")]
        mq = [split_line(l) for l in mo if l.startswith("Q ")]
        if not iq or not mq or iq[0][2] is None or mq[0][2] is None:
            return False
        return not same_outcomes(job, iq[0][2], mq[0][2])

    def assumptions(self):
        return ["one step of the model = one keyspace primitive under the store lock; sync.Mutex / sync.RWMutex behave as mutual exclusion (Go runtime, not verified)",
                "maxmemory = 0: the eviction passes of updateKeysInCache (asynchronous goroutines) do nothing; with a limit they delete keys between the primitives of a command (C08 territory)",
                "standalone mode; in cluster mode commands applied by the raft FSM do not take the command lock",
                "Go-level data races are outside the model (the race-detector stress of the thorough tier is supporting evidence); a state copy is compared as a value, rendered after the other command has finished (copylate jobs)",
                "the sampler samples all volatile keys of the database (EvictionSample >= their number in every job)"]

    @classmethod
    def replay_file(cls, path):
        j = json.load(open(path))
        if "job" not in j:
            print(json.dumps(j, indent=1)); return 0
        ensure_built()
        job = job_from_json(j["job"])
        more = {job.id: ["R " + j["sched"]]} if "sched" in j else {}
        im = run_many([os.path.join(BUILD, "sched")], [job], {"now": NOW, "probe": 0}, more)
        ils = im.get(job.id, [])
        mode = next((l[2:] for l in ils if l.startswith("M ")), "lock")
        mm = {job.id: [l.split(" | ")[0] for l in ils if l[:2] in ("Q ", "O ")]}
        mo = run_many([os.path.join(BUILD, "modelrun"), "conc"], [job], {"now": NOW, "mode": mode}, mm)
        print("threads:", job.describe()); print("schedule:", j.get("sched"))
        print("implementation:"); [print("  ", l) for l in ils]
        print("model (mode %s):" % mode); [print("  ", l) for l in mo.get(job.id, [])]
        qs = [split_line(l) for l in ils if l.startswith("Q ")]
        ser = [split_line(l) for l in ils if l.startswith("O ")]
        bad = 0
        for k, s, o, d in qs:
            if o is not None and not any(same_outcomes(job, o, so) and dataset(d) == dataset(sd) for _, _, so, sd in ser):
                print("schedule %s: outcome equals that of no serial order" % s); bad = 1
        if any((l.startswith("H ") and not (mode == "lock" and "NOTENABLED" in l)) or l in ("HUNG", "DIED") for l in ils):
            bad = 1
        if mode == "lock" and any("NOTENABLED" in l for l in ils):
            print("the schedule is not possible on this build: a command cannot start while another one holds the command lock")
        print("verdict:", "violation reproduced" if bad else "accepted")
        return bad
