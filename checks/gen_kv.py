"""Generators for generic + string commands (C01, C04, C13, C19, C20)."""
import itertools, random
from common import *

NOW = 1700000000000
KEYS = ["a", "b", "c"]
VALUES = ["", "x", "%d", "0.00001", "hello", "007", "12", "-3", "1.5", "-0.25", "a\r\nb", "\x00\xff\x80z", "+5", "1.50", "10"]
BIG = ["9223372036854775807", "-9223372036854775808", "9223372036854775806"]
INTS = ["1", "-1", "0", "5", "-7", "100", "9223372036854775807", "-9223372036854775808"]
FLOATS = ["1.5", "-0.25", "2", "0.5", "-3"]
BADNUM = ["zz", "", "1.5x", " 1", "--1"]
IDX = ["-10", "-4", "-2", "-1", "0", "1", "2", "3", "5", "10"]

ALL_VALUES = [vstr("v"), vstr(""), vstr("hello world"), vstr("\x00\xffbin"), vint(12), vint(-3), vfloat(3, 2),
              vlist(["x", "y"]), vlist([]), vset(["m1", "m2"]), vhash({"f": vstr("v"), "n": vint(3)}), vzset({"m": "1/1", "n": "-1/2"})]

def rand_preset(rng, s, dbs=(0,), p=0.6):
    n = 0
    for db in dbs:
        for k in KEYS:
            if rng.random() < p:
                dl = rng.choice([0, 0, 0, NOW + 5000, NOW + 20, NOW - 5, NOW + 1500])
                s.preset(db, k, rng.choice(ALL_VALUES), dl); n += 1
    return n

def set_cmd(rng, k, malformed=False):
    argv = ["SET", k, rng.choice(VALUES)]
    opts = []
    r = rng.random()
    if r < 0.2: opts.append(rng.choice(["NX", "XX", "nx", "xx"]))
    if rng.random() < 0.2: opts.append(rng.choice(["GET", "get"]))
    if rng.random() < 0.35:
        o = rng.choice(["EX", "PX", "EXAT", "PXAT", "ex", "px"])
        if o.upper() == "EX": v = rng.choice(["1", "2", "10", "-1", "0"])
        elif o.upper() == "PX": v = rng.choice(["10", "20", "1500", "5000", "-5", "0"])
        elif o.upper() == "EXAT": v = str(NOW // 1000 + rng.choice([-1, 0, 1, 2, 10]))
        else: v = str(NOW + rng.choice([-5, 1, 20, 1500, 5000]))
        if malformed and rng.random() < 0.4: v = rng.choice(BADNUM)
        opts += [o, v]
    if malformed and rng.random() < 0.3:
        opts.append(rng.choice(["NX", "XX", "EX", "KEEPTTL", "PX"]))
    rng.shuffle(opts) if False else None
    return argv + opts

def rand_cmd(rng, malformed=False, time_cmds=True, big=False):
    """big: values near the int64 limits are in play (wrap-around of the counters); INCRBYFLOAT is then left out
    because binary64 is not exact at that magnitude."""
    k = rng.choice(KEYS)
    vals = VALUES + (BIG if big else [])
    num = lambda pool: rng.choice(BADNUM) if malformed and rng.random() < 0.3 else rng.choice(pool)
    choices = ["SET", "SET", "GET", "GET", "MSET", "MGET", "DEL", "INCR", "DECR", "INCRBY", "DECRBY", "INCRBYFLOAT",
               "APPEND", "SETRANGE", "GETRANGE", "SUBSTR", "STRLEN", "RENAME", "GETDEL", "GETEX", "TYPE", "get", "Set"]
    if time_cmds:
        choices += ["EXPIRE", "PEXPIRE", "EXPIREAT", "PEXPIREAT", "PERSIST", "TTL", "PTTL", "EXPIRETIME", "PEXPIRETIME", "TTL", "PTTL"]
    if big:
        choices = [c for c in choices if c != "INCRBYFLOAT"]
    c = rng.choice(choices)
    u = c.upper()
    if u == "SET":
        argv = set_cmd(rng, k, malformed); argv[0] = c
        if big and rng.random() < 0.4: argv[2] = rng.choice(BIG)
    elif u in ("GET", "STRLEN", "GETDEL", "TYPE", "INCR", "DECR", "PERSIST", "TTL", "PTTL", "EXPIRETIME", "PEXPIRETIME"):
        argv = [c, k]
    elif u == "MSET":
        argv = [c]
        for _ in range(rng.randint(1, 3)): argv += [rng.choice(KEYS), rng.choice(vals)]
        if malformed and rng.random() < 0.5: argv.append("odd")
    elif u == "MGET": argv = [c] + [rng.choice(KEYS + ["zz"]) for _ in range(rng.randint(1, 4))]
    elif u == "DEL": argv = [c] + [rng.choice(KEYS + ["zz"]) for _ in range(rng.randint(1, 3))]
    elif u in ("INCRBY", "DECRBY"): argv = [c, k, num(INTS if big else INTS[:6])]
    elif u == "INCRBYFLOAT": argv = [c, k, num(FLOATS)]
    elif u == "APPEND": argv = [c, k, rng.choice(VALUES)]
    elif u == "SETRANGE": argv = [c, k, num(IDX), rng.choice(VALUES)]
    elif u in ("GETRANGE", "SUBSTR"): argv = [c, k, num(IDX), num(IDX)]
    elif u == "RENAME": argv = [c, k, rng.choice(KEYS)]
    elif u == "GETEX":
        argv = [c, k]
        r = rng.random()
        if r < 0.25: argv += [rng.choice(["PERSIST", "persist"])]
        elif r < 0.8:
            o = rng.choice(["EX", "PX", "EXAT", "PXAT", "px"])
            v = {"EX": rng.choice(["1", "2", "-1"]), "PX": rng.choice(["10", "1500", "-5"]),
                 "EXAT": str(NOW // 1000 + rng.choice([-1, 1, 2])), "PXAT": str(NOW + rng.choice([-5, 20, 1500]))}[o.upper()]
            argv += [o, num([v])]
        elif malformed: argv += ["KEEP"]
    elif u in ("EXPIRE", "PEXPIRE", "EXPIREAT", "PEXPIREAT"):
        if u == "EXPIRE": v = rng.choice(["1", "2", "10", "-1", "0"])
        elif u == "PEXPIRE": v = rng.choice(["10", "20", "1500", "5000", "-5", "0"])
        elif u == "EXPIREAT": v = str(NOW // 1000 + rng.choice([-1, 1, 2, 10]))
        else: v = str(NOW + rng.choice([-5, 1, 20, 1500, 5000]))
        argv = [c, k, num([v])]
        if rng.random() < 0.5: argv.append(rng.choice(["NX", "XX", "GT", "LT", "gt", "lt"] + (["ZZ"] if malformed else [])))
    else:
        argv = [c, k]
    if malformed and rng.random() < 0.2:
        argv = argv[:-1] if rng.random() < 0.5 and len(argv) > 1 else argv + ["extra"]
    return argv

def observe(s, keys=KEYS, conn=0):
    for k in keys:
        s.cmd(conn, "GET", k); s.cmd(conn, "TYPE", k); s.cmd(conn, "PTTL", k)
    s.digest()

def random_scripts(rng, count, length, malformed=False, tag="r", advances=True, time_cmds=True, flush=True):
    out = []
    for n in range(count):
        s = Script("%s%d" % (tag, n), {"now": NOW})
        rand_preset(rng, s)
        s.digest()
        big = rng.random() < 0.25
        for _ in range(rng.randint(1, length)):
            r = rng.random()
            if advances and r < 0.12:
                s.advance(rng.choice([1, 9, 10, 11, 19, 20, 21, 999, 1000, 1001, 1499, 1500, 1501, 5000]))
            elif flush and r < 0.14:
                s.cmd(0, rng.choice(["FLUSHDB", "FLUSHALL", "flushdb"]))
            else:
                s.cmd(0, *rand_cmd(rng, malformed, time_cmds, big))
            if rng.random() < 0.15:
                s.digest()
        observe(s)
        out.append(s)
    return out
