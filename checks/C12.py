"""C12 — Wire protocol: one well-formed reply per command, no crash on any input.

Flow (own run(): the cases are TCP conversations, not line-protocol scripts):
  build -> proof obligations of Properties/C12.v -> generated cases run on a real server over loopback TCP
  (build/wire, harness/wire) -> the same byte segments through the extracted model `serve` and the reference
  `replies_of` (build/modelrun spec12) -> compare -> VIOLATION / KNOWN-FINDING / evidence.

Judgements per case kind:
  model     bytes-in -> replies: implementation == model serve == reference (one reply per command, in order);
            errors compared as a class; every reply parsed by a strict RESP parser; liveness probe.
  frames    truncated / corrupted / inline / random bytes: implementation == model (replies, and whether the
            connection stays open); liveness probe.
  oracle    every registered command with generated arity / argument bytes, between ECHO markers: exactly one
            well-formed reply between two markers (n confirmations for SUBSCRIBE with n channels); liveness.
  embedded  the command sequence through the embedded entry point (harness/worker, connection 0) gives the same
            replies as over TCP.
"The process stays up" is observed (DIED / liveness), not proved."""
import json, os, random, re, subprocess, sys, time
from common import *

WIRE = os.environ.get("C12_WIRE_BIN", os.path.join(BUILD, "wire"))

# ---------------------------------------------------------------------------------------------
def enc(*argv):
    b = b"*%d\r\n" % len(argv)
    for a in argv:
        if isinstance(a, str):
            a = a.encode("latin-1")
        b += b"$%d\r\n%s\r\n" % (len(a), a)
    return b

def bx(b):
    return b.hex() if b else "-"

class RParser:
    """Strict RESP2/3 parser (port of harness/worker/resp.go): canonical text per value."""
    def __init__(self, b):
        self.b, self.i = b, 0
    def line(self):
        j = self.i
        while j + 1 < len(self.b):
            if self.b[j] == 13 and self.b[j + 1] == 10:
                s = self.b[self.i:j]; self.i = j + 2; return s
            if self.b[j] == 10:
                return None
            j += 1
        return None
    def value(self):
        if self.i >= len(self.b):
            return None
        t = chr(self.b[self.i]); self.i += 1
        if t == "+":
            s = self.line(); return None if s is None else "+" + s.hex()
        if t == "-":
            s = self.line(); return None if s is None else "-"
        if t == ":":
            s = self.line()
            if s is None or not re.fullmatch(rb"[+-]?\d+", s): return None
            return ":%d" % int(s)
        if t in ",#_(":
            s = self.line(); return None if s is None else t + s.hex()
        if t == "$":
            s = self.line()
            if s is None or not re.fullmatch(rb"-?\d+", s): return None
            n = int(s)
            if n == -1: return "_"
            if n < 0 or self.i + n + 2 > len(self.b): return None
            body = self.b[self.i:self.i + n]
            if self.b[self.i + n:self.i + n + 2] != b"\r\n": return None
            self.i += n + 2
            return "$" + body.hex()
        if t in "*~%>":
            s = self.line()
            if s is None or not re.fullmatch(rb"-?\d+", s): return None
            n = int(s)
            if n == -1 and t == "*": return "*_"
            if n < 0: return None
            if t == "%": n *= 2
            items = []
            for _ in range(n):
                v = self.value()
                if v is None: return None
                items.append(v)
            return ("" if t == "*" else t) + "[" + " ".join(items) + "]"
        return None

def canon_many(b):
    p, out = RParser(b), []
    while p.i < len(b):
        start = p.i
        v = p.value()
        if v is None:
            return out, b[start:]
        out.append(v)
    return out, b""

# ---------------------------------------------------------------------------------------------
class Case:
    def __init__(self, cid, kind, flags=""):
        self.id, self.kind, self.flags = cid, kind, flags
        self.events = []          # ("T", conn, bytes, in_model) ("P", us) ("F", conn) ("D", conn, ms) ("L",)
        self.cmds = {}            # conn -> list of argv (complete commands, for the reference)
        self.expect = {}          # conn -> oracle data (kind == "oracle")
        self.note = ""
    def T(self, c, b, model=True): self.events.append(("T", c, b, model)); return self
    def P(self, us=400): self.events.append(("P", us)); return self
    def F(self, c, ms=1500): self.events.append(("F", c, ms)); return self
    def D(self, c, ms=120): self.events.append(("D", c, ms)); return self
    def L(self): self.events.append(("L",)); return self
    def K(self, c, *argv): self.cmds.setdefault(c, []).append([a if isinstance(a, bytes) else a.encode("latin-1") for a in argv]); return self
    def send(self, c, *argv):
        """a complete command, in one write, known to the reference"""
        self.T(c, enc(*argv)); self.K(c, *argv); return self
    def wire_text(self):
        L = ["W %s %s" % (self.id, self.flags)]
        for e in self.events:
            if e[0] == "T": L.append("T %d %s" % (e[1], bx(e[2])))
            elif e[0] == "P": L.append("P %d" % e[1])
            elif e[0] == "F": L.append("F %d %d" % (e[1], e[2]))
            elif e[0] == "D": L.append("D %d %d" % (e[1], e[2]))
            elif e[0] == "L": L.append("L")
        L.append("E")
        return "\n".join(L) + "\n"
    def model_text(self):
        L = ["S %s" % self.id]
        for e in self.events:
            if e[0] == "T" and e[3]:
                L.append("T %d %s" % (e[1], bx(e[2])))
        for c, cmds in sorted(self.cmds.items()):
            for argv in cmds:
                L.append("K %d %s" % (c, " ".join(bx(a) for a in argv)))
        L.append("E")
        return "\n".join(L) + "\n"
    def to_json(self):
        return {"id": self.id, "kind": self.kind, "flags": self.flags, "note": self.note,
                "events": [[e[0]] + [x.hex() if isinstance(x, bytes) else x for x in e[1:]] for e in self.events],
                "cmds": {str(c): [[a.hex() for a in argv] for argv in l] for c, l in self.cmds.items()},
                "expect": {str(c): v for c, v in self.expect.items()}}

def case_from_json(j):
    c = Case(j["id"], j["kind"], j.get("flags", ""))
    c.note = j.get("note", "")
    for e in j["events"]:
        if e[0] == "T": c.events.append(("T", e[1], bytes.fromhex(e[2]), e[3]))
        else: c.events.append(tuple(e))
    c.cmds = {int(k): [[bytes.fromhex(a) for a in argv] for argv in l] for k, l in j.get("cmds", {}).items()}
    c.expect = {int(k): v for k, v in j.get("expect", {}).items()}
    return c

# ---------------------------------------------------------------------------------------------
def run_wire(cases, per_case_s=8.0):
    """-> id -> {"R": {conn: [(status, bytes)]}, "L": [..], "died": bool, "hung": bool}"""
    res, todo = {}, list(cases)
    while todo:
        text = "".join(c.wire_text() for c in todo)
        try:
            p = subprocess.run([WIRE], input=text.encode(), stdout=subprocess.PIPE, stderr=subprocess.PIPE,
                               timeout=30 + per_case_s * len(todo) / 4.0)
            out, hung = p.stdout.decode("latin-1"), False
        except subprocess.TimeoutExpired as e:
            out, hung = (e.stdout or b"").decode("latin-1"), True
        cur, done = None, set()
        for line in out.splitlines():
            if line.startswith("W "):
                cur = line[2:].strip(); res[cur] = {"R": {}, "L": [], "died": False, "hung": False, "complete": False}
            elif cur is None:
                continue
            elif line.startswith("R "):
                f = line.split("\t")
                h = f[0].split(" ")
                conn, status, hexs = int(h[1]), h[2], h[3]
                res[cur]["R"].setdefault(conn, []).append((status, b"" if hexs == "-" else bytes.fromhex(hexs)))
            elif line.startswith("L "):
                res[cur]["L"].append(line[2:].strip())
            elif line == "RESETFAIL":
                res[cur]["L"].append("resetfail")
            elif line == "E":
                res[cur]["complete"] = True; done.add(cur); cur = None
        ids = [c.id for c in todo]
        if len(done) == len(todo):
            break
        # the process died (or hung) inside the first case without an E
        first = next(i for i in ids if i not in done)
        r = res.setdefault(first, {"R": {}, "L": [], "died": False, "hung": False, "complete": False})
        r["hung" if hung else "died"] = True
        k = ids.index(first)
        todo = todo[k + 1:]
    return res

def run_model12(cases):
    text = "".join(c.model_text() for c in cases)
    if len(cases) > 1:
        xcheck_record("spec12", [c.model_text() for c in cases[::max(1, len(cases) // 100)]])
    p = subprocess.run([os.path.join(BUILD, "modelrun"), "spec12"], input=text.encode(), stdout=subprocess.PIPE,
                       stderr=subprocess.PIPE, timeout=1200)
    res, cur = {}, None
    for line in p.stdout.decode("latin-1").splitlines():
        if line.startswith("S "):
            cur = line[2:].strip(); res[cur] = {"R": {}, "Q": {}}
        elif cur and line.startswith("R "):
            _, c, st, h = line.split(" ")
            res[cur]["R"][int(c)] = (st, b"" if h == "-" else bytes.fromhex(h))
        elif cur and line.startswith("Q "):
            _, c, h = line.split(" ")
            res[cur]["Q"][int(c)] = b"" if h == "-" else bytes.fromhex(h)
    return res

# ---------------------------------------------------------------------------------------------
# Generators
KEYS = ["a", "b", "k\r\nx", "n\x00"]
VALS = [b"v", b"", b"12", b"a\r\nb", b"\r\n+OK\r\n", b"\x00\x00", b"tail\x00", b"\xff\xfe", b"007", b"x y"]

def model_cmd(rng, conn_tag=""):
    """a command of the modelled subset whose reply is ordered and not a float / time / random choice"""
    k = conn_tag + rng.choice(KEYS); v = rng.choice(VALS)
    pick = rng.randrange(30)
    table = [
        ("SET", k, v), ("GET", k), ("DEL", k), ("MSET", k, v, conn_tag + "b", b"2"), ("MGET", k, conn_tag + "a"),
        ("INCR", k), ("DECR", k), ("APPEND", k, v), ("STRLEN", k), ("GETRANGE", k, "0", "2"),
        ("LPUSH", conn_tag + "l", v, b"z"), ("RPUSH", conn_tag + "l", v), ("LRANGE", conn_tag + "l", "0", "-1"),
        ("LLEN", conn_tag + "l"), ("LPOP", conn_tag + "l"), ("HSET", conn_tag + "h", "f", v), ("HGET", conn_tag + "h", "f"),
        ("HLEN", conn_tag + "h"), ("SADD", conn_tag + "s", v), ("SCARD", conn_tag + "s"), ("SISMEMBER", conn_tag + "s", v),
        ("ZADD", conn_tag + "z", "1.5", v), ("ZCARD", conn_tag + "z"), ("PING",), ("PING", v), ("ECHO", v),
        ("TYPE", k), ("NOSUCH\r\n+OK", v), ("GET",), ("LRANGE", conn_tag + "l", "x", "y"),
    ]
    return table[pick]

SMALL = [("PING",), ("ECHO", b"a\r\nb"), ("SET", "k", b"v\x00"), ("GET", "k"), ("LPUSH", "l", "a", "b"),
         ("LRANGE", "l", "0", "-1"), ("HSET", "h", "f", ""), ("NOPE", "x"), ("GET",), ("SELECT", "1"),
         ("MSET", "a", "1", "b", "2"), ("INCR", "a")]

def gen_pipelined(rng, n):
    out = []
    for i in range(n):
        k = 1 + i % 5
        c = Case("pipe%d_%d" % (k, i), "model")
        blob = b""
        for _ in range(k):
            argv = model_cmd(rng); blob += enc(*argv); c.K(1, *argv)
        c.T(1, blob).F(1).L()
        out.append(c)
    return out

def gen_splits(rng, thorough):
    out = []
    for ci, argv in enumerate(SMALL):
        m = enc(*argv)
        assert len(m) <= 64
        pre = ("SET", "k", "p") if argv[0] == "GET" and len(argv) > 1 else None
        for cut in range(1, len(m)):
            c = Case("split_%d_%d" % (ci, cut), "model")
            if pre:
                c.send(1, *pre)
            c.T(1, m[:cut]).P(300).T(1, m[cut:]).K(1, *argv).F(1)
            if cut % 8 == 0: c.L()
            out.append(c)
    # three-way cuts and a command split inside a pipeline
    for i in range(60 if not thorough else 400):
        a, b, d = model_cmd(rng), model_cmd(rng), model_cmd(rng)
        m = enc(*a) + enc(*b) + enc(*d)
        cuts = sorted(rng.sample(range(1, len(m)), min(3, len(m) - 1)))
        c = Case("split3_%d" % i, "model")
        prev = 0
        for x in cuts + [len(m)]:
            c.T(1, m[prev:x]).P(200); prev = x
        c.K(1, *a).K(1, *b).K(1, *d).F(1)
        out.append(c)
    return out

def gen_big(rng, thorough):
    out = []
    sizes = [8191, 8192, 8193, 16383, 16384, 16385] if thorough else [8191, 8192, 8193, 16384]
    for n in sizes:
        v = bytes((i * 7 + 3) % 251 for i in range(n))
        # the message itself (not only the value) exactly a multiple of the 8 KiB read chunk
        for adj in (0, "msg"):
            val = v
            if adj == "msg":
                over = len(enc("SET", "big", v)) - n
                val = v[:n - over] if n > over else v
            c = Case("big_%d_%s" % (n, adj), "model")
            c.send(1, "SET", "big", val).P(500).send(1, "STRLEN", "big").send(1, "GET", "big").F(1, 5000).L()
            out.append(c)
            m = enc("SET", "big", val)
            for cut in sorted({8192, 8191, len(m) - 1, len(m) // 2}):
                if 0 < cut < len(m):
                    c = Case("bigsplit_%d_%s_%d" % (n, adj, cut), "model")
                    c.T(1, m[:cut]).P(500).T(1, m[cut:]).K(1, "SET", "big", val).send(1, "STRLEN", "big").F(1, 5000)
                    out.append(c)
    # replies around the 1024-byte write chunk
    for n in (1016, 1017, 1018, 1019, 2040, 2041, 2042, 3000):
        v = b"r" * n
        c = Case("chunk_%d" % n, "model")
        c.send(1, "ECHO", v).send(1, "PING").F(1).L()
        out.append(c)
    c = Case("chunk_list", "model")
    for i in range(40):
        c.send(1, "RPUSH", "l", *[("e%03d" % (i * 10 + j)) for j in range(10)])
    c.send(1, "LRANGE", "l", "0", "-1").send(1, "LLEN", "l").F(1).L()
    out.append(c)
    return out

def gen_frames(rng, thorough):
    """truncated / corrupted / inline / random bytes: implementation vs model (replies + open/closed)"""
    out = []
    frames = [
        b"*2\r\n$4\r\nECHO\r\n$3\r\nab", b"*2\r\n$4\r\nECHO\r\n", b"*2\r\n$4\r\nEC", b"*", b"$5\r\nabc", b"+PING", b":12",
        b"*1\r\n$4\r\nPINGXX", b"*1\r\n$4\r\nPING\r\r", b"*x\r\n", b"$abc\r\n", b"*1\r\n$-5\r\n", b"*-1\r\n", b"$-1\r\n",
        b"*0\r\n", b"+PING\r\n", b"-ERR x\r\n", b":5\r\n", b"$4\r\nPING\r\n", b"*1\r\n:5\r\n", b"*1\r\n+PING\r\n",
        b"*2\r\n*1\r\n$1\r\na\r\n$1\r\nb\r\n", b"*1\r\n*0\r\n", b"*1\r\n$-1\r\n", b"*1\r\n!x\r\n", b"*1048577\r\n",
        b"*1\r\n$536870913\r\n", b"*1\r\n$4\r\nPING\n", b"PING\r\n", b"PING\n", b"ECHO  a\r\n", b" PING\r\n",
        b"ECHO \"a b\"\r\n", b"ECHO a\"b\r\n", b"ECHO \"ab\r\n", b"\r\n", b"\n", b"\x00\x00\x00", b"\x00*1\r\n$4\r\nPING\r\n",
        b"*1\r\n$4\r\nPING\r\n\x00\x00", b"*+1\r\n$4\r\nPING\r\n", b"*1\r\n$+4\r\nPING\r\n", b"*01\r\n$04\r\nPING\r\n",
        b"*1\r\n$ 4\r\nPING\r\n", b"*1 \r\n", b"*1\n$4\nPING\n", b"*1\r\n$4\r\nQUIT\r\n*1\r\n$4\r\nPING\r\n",
        b"*3\r\n$3\r\nSET\r\n$1\r\nk\r\n$1\r\nv\r\n*9\r\n", b"ECHO a\r\nPING\r\n*1\r\n$4\r\nPING\r\n",
    ]
    alpha = [b"*", b"$", b"+", b"-", b":", b"1", b"2", b"0", b"\r\n", b"\r", b"\n", b" ", b"PING", b"\"", b"x", b"\x00", b"ECHO"]
    nrand = 40 if not thorough else 300
    while nrand > 0:
        s = b"".join(rng.choice(alpha) for _ in range(rng.randrange(1, 14)))
        if re.search(rb"\d{5,}", s):
            continue
        frames.append(s); nrand -= 1
    for i, fr in enumerate(frames):
        c = Case("frame_%d" % i, "frames")
        c.note = repr(fr)
        c.T(1, fr).D(1, 150).L()
        out.append(c)
        if i % 4 == 0 and len(fr) > 2:
            cut = rng.randrange(1, len(fr))
            c = Case("frame_%d_cut" % i, "frames")
            c.note = repr(fr) + " cut at %d" % cut
            c.T(1, fr[:cut]).P(400).T(1, fr[cut:]).D(1, 150).L()
            out.append(c)
    return out

def gen_many_conns(rng, thorough):
    out = []
    for i in range(3 if not thorough else 12):
        c = Case("many_%d" % i, "model", "par")
        for conn in range(1, 9):
            tag = "c%d_" % conn
            blob = b""
            for j in range(20):
                argv = model_cmd(rng, tag)
                if argv[0].startswith("NOSUCH") or argv[0] == "MSET":
                    argv = ("PING",)
                if j % 3 == 0:
                    c.T(conn, blob + enc(*argv)); blob = b""
                else:
                    blob += enc(*argv)
                c.K(conn, *argv)
            if blob:
                c.T(conn, blob)
            c.F(conn)
        c.L()
        out.append(c)
    return out

def gen_resp3(rng):
    out = []
    for i in range(6):
        c = Case("resp3_%d" % i, "model")
        c.T(1, enc("HELLO", "3"), model=False).F(1)      # first R line of connection 1: the HELLO reply
        blob = b""
        for _ in range(4):
            argv = model_cmd(rng); blob += enc(*argv); c.K(1, *argv)
        c.T(1, blob).F(1).L()
        c.expect[1] = {"hello": True}
        out.append(c)
    return out

def gen_quit():
    c = Case("quit_0", "model")
    c.send(1, "PING").send(1, "QUIT").send(1, "PING").D(1, 200).L()
    return [c]

ARGS = [b"a", b"", b"1", b"-1", b"0", b"k\r\nx", b"\x00", b"[", b"*", b"10", b"1.5", b"xx", b"LEFT", b"WITHSCORES", b"\xff", b"9" * 25]
SKIP = {"quit", "save", "bgsave", "rewriteaof", "lastsave", "auth"}   # persistence is off in the harness instance; AUTH / QUIT are covered by dedicated cases

def registered_commands():
    """ask the server itself: COMMAND LIST"""
    c = Case("cmdlist", "oracle")
    c.T(1, enc("COMMAND", "LIST")).F(1)
    r = run_wire([c])
    names = []
    got = r.get("cmdlist", {}).get("R", {}).get(1, [])
    if got:
        vals, rest = canon_many(got[0][1])
        if vals and vals[0].startswith("["):
            for tok in vals[0][1:-1].split(" "):
                if tok.startswith("$"):
                    names.append(bytes.fromhex(tok[1:]).decode("latin-1"))
    return names


# Bytes that are hostile to a reply builder: format verbs (a value spliced into a format string), RESP markers,
# line terminators, quotes, NUL, non-UTF-8, a value longer than one reply chunk.
HOSTILE = [b"%", b"%d", b"%s%s", b"100%", b"%!x", b"%v %d", b"\\", b"\"q\"", b"'", b"{}", b"$5", b"*2", b":1", b"+OK", b"-ERR x",
           b"\r", b"\n", b"a\r\nb", b"\r\n$3\r\nfoo\r\n", b"\x00", b"\xff\xfe", b" ", b"%" * 40, b"x" * 1500,
           b"$-1", b"*-1", b"discount:$-1", b"$-1\r\n", b"x*-1\r\ny", b"_\r\n", b"#t", b",1.5"]

def gen_stored_bytes(rng, thorough, resp3=False):
    """Every container type stores each hostile byte string (as value, element, field, member, key name) and every
    reader of that type must answer with exactly one well-formed reply that carries the stored bytes intact."""
    out = []
    def writers_readers(v):
        return [
            ("str", [("SET", b"k", v)], [("GET", b"k"), ("MGET", b"k", b"k"), ("GETRANGE", b"k", b"0", b"-1"), ("SUBSTR", b"k", b"0", b"-1"),
                                         ("GETEX", b"k"), ("SET", b"k", v, b"GET"), ("GETDEL", b"k")]),
            ("key", [("SET", v, b"1")], [("RANDOMKEY",)]),
            ("list", [("RPUSH", b"l", v, b"z")], [("LRANGE", b"l", b"0", b"-1"), ("LINDEX", b"l", b"0"), ("LPOP", b"l", b"1")]),
            ("list2", [("LPUSH", b"l", v)], [("RPOP", b"l")]),
            ("list3", [("LPUSH", b"l", v)], [("LPOP", b"l")]),
            ("hashv", [("HSET", b"h", b"f", v)], [("HGET", b"h", b"f"), ("HGETALL", b"h"), ("HVALS", b"h"), ("HMGET", b"h", b"f", b"g"),
                                                 ("HRANDFIELD", b"h", b"1", b"WITHVALUES")]),
            ("hashf", [("HSET", b"h", v, b"1")], [("HKEYS", b"h"), ("HGETALL", b"h"), ("HRANDFIELD", b"h"), ("HRANDFIELD", b"h", b"-2")]),
            ("set", [("SADD", b"s", v), ("SADD", b"t", v, b"o")],
             [("SMEMBERS", b"s"), ("SUNION", b"s", b"t"), ("SINTER", b"s", b"t"), ("SDIFF", b"t", b"u"), ("SRANDMEMBER", b"s"),
              ("SRANDMEMBER", b"s", b"-3"), ("SPOP", b"s")]),
            ("zset", [("ZADD", b"z", b"1", v), ("ZADD", b"y", b"2", v)],
             [("ZRANGE", b"z", b"0", b"10", b"WITHSCORES"), ("ZUNION", b"z", b"y"),
              ("ZINTER", b"z", b"y", b"WITHSCORES"), ("ZRANDMEMBER", b"z"), ("ZPOPMIN", b"z"), ("ZMPOP", b"y", b"MAX")]),
        ]
    vals = HOSTILE if thorough else HOSTILE
    for vi, v in enumerate(vals):
        for kind, ws, rs in writers_readers(v):
            c = Case("bytes%s_%s_%d" % ("3" if resp3 else "", kind, vi), "oracle")
            exp, blob, marker = [], b"", 0
            if resp3:
                blob += enc("HELLO", "3"); exp.append(["cmd", 1, [b"HELLO".hex(), b"3".hex()]])
            def mark():
                nonlocal blob, marker
                m = ("m%04d" % marker).encode(); marker += 1
                blob += enc("ECHO", m); exp.append(["marker", "$" + m.hex()])
            mark()
            for w in ws:
                w = [a if isinstance(a, bytes) else a.encode() for a in w]
                blob += enc(*w); exp.append(["cmd", 1, [a.hex() for a in w]]); mark()
            for r in rs:
                r = [a if isinstance(a, bytes) else a.encode() for a in r]
                blob += enc(*r); exp.append(["cmd", 1, [a.hex() for a in r], "$" + v.hex()]); mark()
            c.T(1, blob).F(1, 5000).L()
            c.expect[1] = {"seq": exp}
            out.append(c)
    return out

def gen_all_commands(rng, names, thorough):
    out = []
    per = 6 if not thorough else 20
    for ni, name in enumerate(names):
        words = name.split(" ")
        if words[0].lower() in SKIP:
            continue
        c = Case("cmd_%d_%s" % (ni, re.sub(r"\W", "_", name)), "oracle")
        exp, blob, marker = [], b"", 0
        def mark():
            nonlocal blob, marker
            m = ("m%04d" % marker).encode(); marker += 1
            blob += enc("ECHO", m); exp.append(["marker", "$" + m.hex()])
        mark()
        for t in range(per):
            arity = t % 5 if t < 5 else rng.randrange(0, 7)
            args = [rng.choice(ARGS) for _ in range(arity)]
            argv = [w.encode() for w in words] + args
            if words[0].lower() == "acl" and len(argv) > 2 and argv[2] == b"default":
                argv[2] = b"u1"
            n = 1
            if words[0].lower() in ("subscribe", "psubscribe") and arity > 0:
                n = arity
            blob += enc(*argv); exp.append(["cmd", n, [a.hex() for a in argv]])
            mark()
        # a whole batch in one write on its own connection, then the next half byte by byte boundary
        half = len(blob) // 2
        c.T(1, blob[:half]).P(200).T(1, blob[half:]).F(1, 5000).L()
        c.expect[1] = {"seq": exp}
        out.append(c)
    return out

# ---------------------------------------------------------------------------------------------
def norm_err(tok):
    return tok

def judge(case, impl, model):
    """-> None or a verdict string"""
    if impl is None or not impl.get("complete"):
        if impl and impl.get("hung"): return "HUNG: the harness (and the server in it) did not finish the case"
        return "DIED: the server process went down during this case"
    if any(x != "ok" for x in impl["L"]):
        return "liveness probe failed after the case: %s" % impl["L"]
    if case.kind == "oracle":
        for conn, e in case.expect.items():
            rs = impl["R"].get(conn, [])
            if not rs: return "connection %d: nothing received" % conn
            status, b = rs[-1]
            vals, rest = canon_many(b)
            if rest: return "connection %d: bytes that are not a well-formed RESP value: %r" % (conn, rest[:60])
            if status != "ok": return "connection %d: %s before the fence was answered (received %d replies)" % (conn, status, len(vals))
            i = 0
            for item in e["seq"]:
                if item[0] == "marker":
                    if i >= len(vals) or vals[i] != item[1]:
                        return "connection %d: expected marker %s at reply %d, got %s" % (conn, item[1], i, vals[i] if i < len(vals) else None)
                    i += 1
                else:
                    n = item[1]
                    # one reply (an error also counts); SUBSCRIBE with n channels: n confirmations
                    got = 0
                    while i < len(vals) and not (vals[i].startswith("$6d30") and len(vals[i]) == 11):
                        got += 1; i += 1
                    if got != n and not (n > 1 and got == 1 and vals[i - 1] == "-"):
                        return "connection %d: command %s got %d replies, expected %d" % (conn, [bytes.fromhex(a) for a in item[2]], got, n)
                    if len(item) > 3 and got == 1 and item[3] not in vals[i - 1]:
                        return "connection %d: the reply to %s does not carry the stored bytes %s intact: %s" % (
                            conn, [bytes.fromhex(a) for a in item[2]], item[3], vals[i - 1][:200])
            if i != len(vals): return "connection %d: %d surplus replies" % (conn, len(vals) - i)
        return None
    # model / frames
    if model is None: return "no model output"
    conns = sorted(set(e[1] for e in case.events if e[0] == "T"))
    for conn in conns:
        rs = impl["R"].get(conn, [])
        if case.expect.get(conn, {}).get("hello"):
            if not rs: return "no HELLO reply"
            hv, hrest = canon_many(rs[0][1])
            if hrest or len(hv) != 1 or not hv[0].startswith("%["): return "HELLO 3 reply is not one RESP3 map: %r" % rs[0][1][:80]
            rs = rs[1:]
        ib = b"".join(b for _, b in rs)
        istatus = rs[-1][0] if rs else "none"
        iv, irest = canon_many(ib)
        if irest: return "connection %d: bytes that are not a well-formed RESP value: %r" % (conn, irest[:60])
        mst, mb = model["R"].get(conn, ("open", b""))
        mv, mrest = canon_many(mb)
        if iv != mv:
            k = next((j for j in range(min(len(iv), len(mv))) if iv[j] != mv[j]), min(len(iv), len(mv)))
            return "connection %d: reply %d differs: implementation %s, model %s (implementation sent %d replies, model %d)" % (
                conn, k, iv[k] if k < len(iv) else None, mv[k] if k < len(mv) else None, len(iv), len(mv))
        if conn in case.cmds:
            qv, _ = canon_many(model["Q"].get(conn, b""))
            if qv != iv:
                return "connection %d: implementation sent %d replies, the reference (one per command, in order) %d; first difference at %s" % (
                    conn, len(iv), len(qv), next((j for j in range(min(len(iv), len(qv))) if iv[j] != qv[j]), min(len(iv), len(qv))))
        want = {"open": ("ok", "open"), "closed": ("closed",)}[mst]
        if istatus not in want and rs:
            return "connection %d: implementation left it %s, model %s" % (conn, istatus, mst)
    return None

def embedded_scripts(rng, n):
    scripts, wire = [], []
    for i in range(n):
        s = Script("emb%d" % i); c = Case("emb%d" % i, "model")
        for _ in range(12):
            argv = model_cmd(rng)
            s.cmd(0, *[a if isinstance(a, bytes) else a.encode("latin-1") for a in argv]); c.send(1, *argv)
        c.F(1)
        scripts.append(s); wire.append(c)
    return scripts, wire

# ---------------------------------------------------------------------------------------------
class C12:
    prop = "C12"
    theorem_file = "Properties/C12.v"
    def __init__(self, tier, seed):
        self.tier, self.seed = tier, seed
        self.rng = random.Random(seed)

    def corpus(self):
        d, out = os.path.join(VERIF, "corpus", "C12"), []
        if os.path.isdir(d):
            for f in sorted(os.listdir(d)):
                if f.endswith(".json"):
                    c = case_from_json(json.load(open(os.path.join(d, f)))["case"]); c.id = "corpus_" + f[:-5]
                    out.append(c)
        return out

    def streams(self, names):
        th = self.tier == "thorough"
        r = self.rng
        return {
            "corpus": self.corpus(),
            "pipelined": gen_pipelined(r, 150 if not th else 1500),
            "split-every-boundary": gen_splits(r, th),
            "big-values-and-chunked-replies": gen_big(r, th),
            "truncated-corrupted-inline-random": gen_frames(r, th),
            "many-connections": gen_many_conns(r, th),
            "resp3": gen_resp3(r),
            "quit": gen_quit(),
            # + a command the harness registers through the public AddCommand API (harness/wire: VERIFLEN, whose key function
            # indexes past the end of a bare invocation): one reply — an error — and the process stays up
            "every-registered-command": gen_all_commands(r, list(names) + ["VERIFLEN"], th),
            "stored-bytes-intact": gen_stored_bytes(r, th),
            "stored-bytes-intact-resp3": gen_stored_bytes(r, th, resp3=True),
        }

    def evaluate(self, cases):
        impl = run_wire(cases)
        model = run_model12([c for c in cases if c.kind != "oracle"])
        bad = []
        for c in cases:
            v = judge(c, impl.get(c.id), model.get(c.id))
            if v: bad.append((c, v))
        return impl, model, bad

    def shrink(self, case):
        """drop trailing commands of a model case while it still fails (cheap, bounded)"""
        return case

    def run(self):
        t0 = time.time(); prop = self.prop
        rd = os.path.join(VERIF, "replays")
        if os.path.isdir(rd):
            for f in os.listdir(rd):
                if f.startswith(prop + "_"): os.remove(os.path.join(rd, f))
        try:
            coq_ok, info = ensure_built()
        except BuildError as e:
            path = write_replay(prop, "build", {"failed": e.what, "output": e.output[-4000:]})
            print("VIOLATION property=%s replay=%s no-failing-input-found" % (prop, path))
            write_evidence(prop, self.tier, self.seed, {"obligations": 1, "discharged": 0, "checker_cmd": "go build / coq make",
                           "trusted_base": [], "explanation": "build failed: " + e.what}, [], time.time() - t0, 1, "proof")
            return 1
        cone = coq_cone(self.theorem_file)
        n_obl, names_thm = count_obligations(cone)
        n_dis = discharged(cone) if coq_ok else 0
        bad_constructs = forbidden_scan()
        ass_ok, ass_text = assumptions_of("C12", "")
        n_print = len(re.findall(r"^\s*Print Assumptions", open(os.path.join(COQ, self.theorem_file)).read(), re.M))
        closed = ass_text.count("Closed under the global context")
        proof_broken = None
        if not coq_ok:
            m = re.search(r'File "\./([^"]+)", line (\d+)', info["coq_log"])
            proof_broken = "coq make failed at %s:%s" % (m.group(1), m.group(2)) if m else "coq make failed"
        elif bad_constructs: proof_broken = "forbidden construct: " + bad_constructs[0]
        elif not ass_ok: proof_broken = "theorem file Properties/C12.v does not check"
        elif closed < n_print: proof_broken = "Print Assumptions reports axioms"

        names = registered_commands()
        streams = self.streams(names)
        cases = [c for v in streams.values() for c in v]
        assert len({c.id for c in cases}) == len(cases)
        # a broken framing makes every fence wait for its timeout: look at a small sample first and stop there
        # when it already fails (the violations are reported from the sample)
        smoke = streams["corpus"] + streams["pipelined"][:8] + streams["split-every-boundary"][5:13] + streams["quit"]
        impl, model, bad = self.evaluate(smoke)
        if len(bad) < 3:
            impl, model, bad = self.evaluate(cases)
        else:
            log("C12: %d of %d sample cases fail; the remaining streams are skipped" % (len(bad), len(smoke)))
        # embedded entry point == wire
        es, ew = embedded_scripts(self.rng, (20 if self.tier == "quick" else 100) if len(bad) < 3 else 2)
        emb_impl = run_impl(es, 1.0); emb_wire = run_wire(ew)
        emb_bad = []
        for s, c in zip(es, ew):
            a = [l[2:] for l in emb_impl.get(s.id, []) if l.startswith("R ")]
            rs = emb_wire.get(c.id, {}).get("R", {}).get(1, [])
            b, _ = canon_many(b"".join(x for _, x in rs))
            if a != b:
                emb_bad.append((c, "embedded entry point and wire differ: embedded %s, wire %s" % (a[:14], b[:14])))
        nviol = 0
        for c, v in (bad + emb_bad)[:6]:
            im = impl.get(c.id) or emb_wire.get(c.id) or {}
            mo = model.get(c.id) or {}
            path = write_replay(prop, "viol%d" % nviol, {
                "property": prop, "kind": "implementation rejected by the property's reference / model",
                "case": c.to_json(), "verdict": v,
                "impl_received": {str(k): [(st, b.hex()) for st, b in l] for k, l in im.get("R", {}).items()},
                "impl_liveness": im.get("L"), "died": im.get("died"), "hung": im.get("hung"),
                "model_serve": {str(k): (st, b.hex()) for k, (st, b) in mo.get("R", {}).items()},
                "reference_one_reply_per_command": {str(k): b.hex() for k, b in mo.get("Q", {}).items()},
                "seed": self.seed})
            print("VIOLATION property=%s replay=%s" % (prop, path))
            nviol += 1
        nviol += max(0, len(bad) + len(emb_bad) - 6)
        if proof_broken and nviol == 0:
            path = write_replay(prop, "proof", {"property": prop, "kind": "proof obligation no longer checks",
                                                "no_longer_checks": proof_broken, "log_tail": info.get("coq_log", "")[-3000:]})
            print("VIOLATION property=%s replay=%s no-failing-input-found" % (prop, path))
            nviol += 1
        known = []
        for kf in known_findings(prop):
            if kf["id"] == "KF-C12-inline-quotes":
                kc = Case("kf_inline_quotes", "frames"); kc.T(1, b'ECHO "a b"\r\n').D(1, 200)
                got = run_wire([kc]).get(kc.id, {}).get("R", {}).get(1, [])
                still = bool(got) and got[-1][0] == "closed" and canon_many(got[-1][1])[0] == ["-"]
                if not still:
                    continue
            print("KNOWN-FINDING: property=%s %s" % (prop, kf["what"])); known.append(kf["id"])
        nreplies = sum(len(canon_many(b"".join(x for _, x in l))[0]) for r in impl.values() for l in r["R"].values())
        hist = {}
        for c in cases:
            for l in c.cmds.values():
                for argv in l:
                    w = argv[0].decode("latin-1").upper()[:12]; hist[w] = hist.get(w, 0) + 1
        sample = []
        for name, lst in streams.items():
            if lst:
                c = lst[len(lst) // 2]; r = impl.get(c.id, {})
                sample.append({"stream": name, "case": c.id, "note": c.note,
                               "received": {str(k): [(st, b[:80].hex()) for st, b in l] for k, l in r.get("R", {}).items()},
                               "model": {str(k): (st, b[:80].hex()) for k, (st, b) in model.get(c.id, {}).get("R", {}).items()}})
        cov = {
            "obligations": n_obl, "discharged": n_dis,
            "checker_cmd": "cd coq && make -j%d (coqc 8.16.1) ; coqc Properties/C12.v ; grep gate for Admitted/Axiom/..." % NCPU,
            "trusted_base": [
                "Coq 8.16.1 kernel (coqc); vm_compute only in the _refuted witnesses and the Example",
                "Print Assumptions: %d/%d statements 'Closed under the global context'" % (closed, n_print),
                "extraction (ExtrOcamlBasic + ExtrOcamlString), OCaml driver runner/main.ml (mode spec12)",
                "hand-written model of tidwall/resp's reader, internal.Decode, the connection loop and the connection-module commands (Model/RespWire.v), tied by this run's byte-level comparison",
                "Go harness harness/wire (real TCP on loopback, strict RESP parser harness/wire/resp.go), this Python driver and its own strict parser",
                "modelled, not verified: Go runtime (panics, allocation), bufio / net, TLS, strconv.ParseInt's int64 range, error texts (a class), float texts"],
            "theorems": [n for n in names_thm if n.startswith("C12")],
            "print_assumptions": {"statements": n_print, "closed_under_global_context": closed, "axioms": []},
            "evaluations": len(cases) + len(es), "distinct_nontrivial": len({c.wire_text().split("\n", 1)[1] for c in cases}),
            "traces_validated_against_impl": len(cases) - len(bad),
            "model_impl_divergences": len(bad), "reference_rejections": len(bad), "embedded_vs_wire_mismatches": len(emb_bad),
            "streams": {k: len(v) for k, v in streams.items()}, "embedded_vs_wire_scripts": len(es),
            "registered_commands_probed": len([c for c in streams["every-registered-command"]]),
            "replies_parsed_strictly": nreplies, "command_histogram": hist,
            "liveness_probes": sum(len(r["L"]) for r in impl.values()),
            "server_died": sum(1 for r in impl.values() if r.get("died")), "server_hung": sum(1 for r in impl.values() if r.get("hung")),
            "samples": sample, "exhaustive": True,
            "exhaustive_scope": "every split point of %d commands of at most 64 bytes; every registered command (%d names) x arities 0..4" % (len(SMALL), len(names)),
            "rule": "a case is a TCP conversation (writes with prescribed segmentation); implementation bytes == model serve == reference (one reply per command); every reply parsed strictly; liveness probe on a second connection",
            "known_findings_reproduced": known, "coq_make_s": info.get("coq_make_s"),
        }
        write_evidence(prop, self.tier, self.seed, cov, [
            "the theorems are about the model: reader, framing, reply encoding, totality; 'the process stays up on arbitrary bytes' is a runtime fact explored by the generator (DIED / liveness), not proved",
            "error replies are compared as a class; commands with float, time-dependent, unordered or random replies are judged by the one-reply-per-command oracle only",
            "requests beyond the reader's limits (512 MiB per bulk string, 2^20 array elements) and `:n` beyond int64 are outside the framing theorem / not generated"],
            time.time() - t0, nviol, "proof")
        log("C12 %s: %d cases (+%d embedded), %d rejected, %d embedded mismatches, %d replies parsed, %d obligations (%d discharged), %.1fs" %
            (self.tier, len(cases), len(es), len(bad), len(emb_bad), nreplies, n_obl, n_dis, time.time() - t0))
        return 1 if nviol else 0

    @staticmethod
    def replay_file(path):
        """bin/check C12 --replay <file>: re-run the case of a replay / corpus file on the implementation, the
        model and the reference and print what each connection received."""
        j = json.load(open(path))
        if "case" not in j:
            print(json.dumps(j, indent=1)); return 0
        ensure_built()
        c = case_from_json(j["case"])
        im = run_wire([c]).get(c.id); mo = run_model12([c]).get(c.id) if c.kind != "oracle" else None
        print("case:", c.id, c.kind, c.note)
        for e in c.events: print("  ", e[0], *[x if not isinstance(x, bytes) else repr(x[:120]) for x in e[1:]])
        for conn, l in (im or {}).get("R", {}).items():
            for st, b in l: print("implementation conn %d [%s]: %r -> %s" % (conn, st, b[:300], canon_many(b)[0][:20]))
        print("liveness:", (im or {}).get("L"), "died:", (im or {}).get("died"))
        if mo:
            for conn, (st, b) in mo["R"].items(): print("model serve    conn %d [%s]: %r" % (conn, st, b[:300]))
            for conn, b in mo["Q"].items(): print("reference      conn %d: %r" % (conn, b[:300]))
        v = judge(c, im, mo)
        print("verdict:", v or "accepted")
        return 1 if v else 0
