"""Shared machinery for the per-property checks: build, run implementation and model, compare,
evidence.  Everything a registered command needs lives under /verif (build output in /verif/build)."""
import fcntl, hashlib, json, os, random, re, shutil, subprocess, sys, time
from fractions import Fraction

VERIF = os.path.dirname(os.path.dirname(os.path.abspath(__file__)))
REPO = os.environ.get("VERIF_REPO", "/repo")
BUILD = os.path.join(VERIF, "build")
COQ = os.path.join(VERIF, "coq")
NCPU = min(16, os.cpu_count() or 4)
GOENV = dict(os.environ, GOFLAGS="-mod=mod", GOPROXY="off", GOSUMDB="off", GOTOOLCHAIN="local",
             GOCACHE=os.path.join(BUILD, "gocache"))

def log(*a):
    print(*a, file=sys.stderr, flush=True)

def sh(cmd, cwd=None, env=None, timeout=1800, check=True, capture=True):
    p = subprocess.run(cmd, cwd=cwd, env=env, timeout=timeout, shell=isinstance(cmd, str),
                       stdout=subprocess.PIPE if capture else None,
                       stderr=subprocess.STDOUT if capture else None, text=True)
    if check and p.returncode != 0:
        raise RuntimeError("command failed (%d): %s\n%s" % (p.returncode, cmd, p.stdout or ""))
    return p

class BuildError(Exception):
    def __init__(self, what, output):
        super().__init__(what)
        self.what, self.output = what, output

# ---------------------------------------------------------------------------------------------
# Build: Go harness from /repo's working tree (tag verif), regenerated Coq tables, make, extraction.

def _lock():
    os.makedirs(BUILD, exist_ok=True)
    f = open(os.path.join(BUILD, ".lock"), "w")
    fcntl.flock(f, fcntl.LOCK_EX)
    return f

def build_harness():
    h = os.path.join(VERIF, "harness")
    shutil.copyfile(os.path.join(REPO, "go.sum"), os.path.join(h, "go.sum"))
    for name in ("worker", "tabledump", "cmdtable", "pubsub", "crash", "snapcrash", "wire", "sched", "fsm", "cluster"):
        if not os.path.isdir(os.path.join(h, name)):
            continue
        p = sh(["go", "build", "-tags", "verif", "-o", os.path.join(BUILD, name), "./" + name],
               cwd=h, env=GOENV, check=False, timeout=900)
        if p.returncode != 0:
            raise BuildError("go build " + name, p.stdout)

def regen_tables():
    """Regenerate coq/Gen/*.v from the code as it is now (only rewritten when the text changes)."""
    td = os.path.join(BUILD, "tabledump")
    if not os.path.exists(td):
        return
    p = sh([td], env=GOENV, check=False, timeout=300)
    if p.returncode != 0:
        raise BuildError("tabledump", p.stdout)
    files, cur, name = {}, [], None
    for line in p.stdout.splitlines():
        m = re.match(r"^\(\*\* FILE (\S+) \*\)$", line)
        if m:
            if name:
                files[name] = "\n".join(cur) + "\n"
            name, cur = m.group(1), []
        elif name:
            cur.append(line)
    if name:
        files[name] = "\n".join(cur) + "\n"
    os.makedirs(os.path.join(COQ, "Gen"), exist_ok=True)
    for n, text in files.items():
        path = os.path.join(COQ, "Gen", n)
        old = open(path).read() if os.path.exists(path) else None
        if old != text:
            open(path, "w").write(text)

def coq_make(clean=False):
    if not os.path.exists(os.path.join(COQ, "Makefile")):
        sh("coq_makefile -f _CoqProject -o Makefile", cwd=COQ)
    if clean:
        sh("make clean", cwd=COQ, check=False)
    t0 = time.time()
    p = sh("timeout 3000 make -j%d 2>&1" % NCPU, cwd=COQ, check=False, timeout=3100)
    open(os.path.join(BUILD, "coq_make.log"), "a").write(p.stdout)
    return p.returncode == 0, p.stdout, time.time() - t0

def build_runner():
    rd = os.path.join(BUILD, "runner")
    os.makedirs(rd, exist_ok=True)
    src = os.path.join(COQ, "Extract", "Extract.v")
    vo_stamp = max(os.path.getmtime(os.path.join(dp, f)) for dp, _, fs in os.walk(COQ) for f in fs if f.endswith(".vo"))
    exe = os.path.join(BUILD, "modelrun")
    drv = os.path.join(VERIF, "runner", "main.ml")
    if os.path.exists(exe) and os.path.getmtime(exe) > max(vo_stamp, os.path.getmtime(drv), os.path.getmtime(src)):
        return
    p = sh(["coqc", "-Q", COQ, "EV", src], cwd=rd, check=False, timeout=900)
    if p.returncode != 0:
        raise BuildError("extraction", p.stdout)
    shutil.copyfile(drv, os.path.join(rd, "main.ml"))
    p = sh("ocamlfind ocamlopt -O3 -w -a model.mli model.ml main.ml -o ../modelrun", cwd=rd, check=False, timeout=900)
    if p.returncode != 0:
        raise BuildError("ocaml build", p.stdout)

def ensure_built(clean=False):
    """Returns (ok, info). Raises BuildError when the Go side or extraction cannot be built."""
    lk = _lock()
    try:
        build_harness()
        regen_tables()
        ok, out, secs = coq_make(clean)
        info = {"coq_make_ok": ok, "coq_make_s": round(secs, 1), "coq_log": out}
        if ok:
            build_runner()
        return ok, info
    finally:
        lk.close()

# ---------------------------------------------------------------------------------------------
# Scripts

def vlist(elems):
    return "l[" + ",".join(hx(e) for e in elems) + "]"
def vstr(s): return "s" + hx(s)
def vint(n): return "i%d" % n
def vfloat(num, den=1): return "f%d/%d" % (num, den)
def vhash(d): return "h{" + ",".join("%s:%s" % (hx(k), v) for k, v in sorted(d.items(), key=lambda kv: kv[0].encode("latin-1") if isinstance(kv[0], str) else kv[0])) + "}"
def vset(ms): return "S{" + ",".join(hx(m) for m in sorted(set(ms), key=lambda m: m.encode("latin-1"))) + "}"
def vzset(d): return "z{" + ",".join("%s:%s" % (hx(k), v) for k, v in sorted(d.items(), key=lambda kv: kv[0].encode("latin-1"))) + "}"

def hx(b):
    if isinstance(b, str):
        b = b.encode("latin-1")
    return b.hex() if b else "-"

class Script:
    """id, config dict, list of event lines (already in the line protocol), plus the structured
    events for reporting."""
    def __init__(self, sid, cfg=None):
        self.id, self.cfg, self.lines, self.events = sid, dict(cfg or {}), [], []
    def cmd(self, conn, *argv):
        self.lines.append("C %d %s" % (conn, " ".join(hx(a) for a in argv)))
        self.events.append(["cmd", conn] + [a if isinstance(a, str) else a.decode("latin-1") for a in argv])
        return self
    def preset(self, db, key, value, deadline=0):
        """value in canonical digest text, e.g. l[61,62]  s76  i12  h{66:s76}  S{6d}  z{6d:1/1}"""
        self.lines.append("P %d %s %s %d" % (db, hx(key), value, deadline))
        self.events.append(["preset", db, key if isinstance(key, str) else key.decode("latin-1"), value, deadline])
        return self
    def select_embedded(self, db):
        self.lines.append("D %d" % db); self.events.append(["select_embedded", db]); return self
    def advance(self, ms):
        self.lines.append("A %d" % ms); self.events.append(["advance", ms]); return self
    def sweep(self, db):
        self.lines.append("W %d" % db); self.events.append(["sweep", db]); return self
    def digest(self):
        self.lines.append("G"); self.events.append(["digest"]); return self
    def raw(self, line, ev=None):
        self.lines.append(line); self.events.append(ev or ["raw", line]); return self
    def header(self):
        return "S %s %s" % (self.id, " ".join("%s=%s" % kv for kv in sorted(self.cfg.items())))
    def text(self):
        return "\n".join([self.header()] + self.lines + ["E"]) + "\n"
    def canonical(self):
        return json.dumps([sorted(self.cfg.items()), self.lines])
    def to_json(self):
        return {"id": self.id, "cfg": self.cfg, "events": self.events, "lines": self.lines}

def script_from_json(j):
    s = Script(j["id"], j.get("cfg"))
    s.lines = list(j["lines"]); s.events = list(j.get("events", []))
    return s

def parse_outputs(text):
    """-> dict id -> list of lines (without the S line); only complete scripts (ending in E)."""
    out, cur, sid = {}, None, None
    for line in text.splitlines():
        if line.startswith("S "):
            sid, cur = line[2:].strip(), []
        elif line == "E":
            if sid is not None:
                out[sid] = cur
            sid, cur = None, None
        elif cur is not None:
            cur.append(line)
    partial = (sid, cur) if sid is not None else None
    return out, partial

def _load_scale():
    """>= 1: how much slower than an idle machine things may be right now (other jobs on the box)."""
    try:
        return max(1.0, os.getloadavg()[0] / float(NCPU)) * 1.5
    except OSError:
        return 1.5

os.environ.setdefault("VERIF_TIME_SCALE", "%.2f" % _load_scale())

def _is_model(exe_args):
    return os.path.basename(exe_args[0]) == "modelrun"

HANGS = {"confirmed": 0}      # scripts of the implementation that hung twice (in their chunk and re-run alone) during this check

def _run_chunk(exe_args, scripts, per_script_timeout):
    """Feed scripts to one process; on death/hang mark the in-flight script and continue with a
    fresh process. Returns dict id -> lines.  The extracted model is a total function: it gets a
    very long limit (a slow box must never turn into a missing reference).  A script of the
    implementation that looks hung is re-run alone with a generous limit before HUNG is recorded."""
    results = {}
    todo = list(scripts)
    while todo:
        if not _is_model(exe_args) and HANGS["confirmed"] >= 8:
            # a build on which script after script hangs (each costs its whole time limit): what has been seen is reported,
            # the rest is not run — a check must end in minutes also on such a build
            for s in todo:
                results[s.id] = ["SKIPPED after %d hung scripts" % HANGS["confirmed"]]
            break
        if not _is_model(exe_args) and HANGS["confirmed"] >= 3:
            batch = todo[:1]          # one script per process from now on: a hang costs one script's limit, not a chunk's
        else:
            batch = todo
        text = "".join(s.text() for s in batch)
        limit = 3600 if _is_model(exe_args) else (20 + per_script_timeout * len(batch)) * _load_scale()
        try:
            p = subprocess.run(exe_args, input=text, stdout=subprocess.PIPE, stderr=subprocess.PIPE,
                               text=True, timeout=limit)
            stdout, died = p.stdout, p.returncode != 0
            hung = False
        except subprocess.TimeoutExpired as e:
            stdout = e.stdout.decode() if isinstance(e.stdout, bytes) else (e.stdout or "")
            died, hung = True, True
        done, partial = parse_outputs(stdout)
        results.update(done)
        if all(s.id in done for s in batch):
            todo = [s for s in todo if s.id not in done]
            continue
        remaining = [s for s in todo if s.id not in done]
        if not remaining:
            break
        if not died and not partial:
            # process ended cleanly but scripts are missing: treat the first missing one as died
            pass
        bad = remaining[0]
        lines = list(partial[1]) if partial and partial[0] == bad.id else []
        lines.append("HUNG" if hung else "DIED")
        if hung and not _is_model(exe_args) and HANGS["confirmed"] >= 3:
            HANGS["confirmed"] += 1
        elif hung and not _is_model(exe_args):
            HANGS["confirmed"] += 1
            try:
                q = subprocess.run(exe_args, input=bad.text(), stdout=subprocess.PIPE, stderr=subprocess.PIPE,
                                   text=True, timeout=(30 + 60 * per_script_timeout) * _load_scale())
                d2, _ = parse_outputs(q.stdout)
                if bad.id in d2:
                    lines = d2[bad.id]
                    HANGS["confirmed"] -= 1      # it was the box, not the script
            except subprocess.TimeoutExpired:
                pass
        results[bad.id] = lines
        todo = remaining[1:]
    return results

XCHECK_POOL = {}      # runner mode -> sample of raw script texts sent to the extracted runner by this check
XCHECK_FAIL = []      # filled by write_evidence when the in-Coq evaluation disagrees with the extracted runner

def xcheck_record(mode, texts, keep=400):
    pool = XCHECK_POOL.setdefault(mode, [])
    for t in texts:
        if len(pool) >= keep:
            break
        pool.append(t)

def run_parallel(exe_args, scripts, per_script_timeout=0.5):
    from concurrent.futures import ThreadPoolExecutor
    if not scripts:
        return {}
    if len(exe_args) == 2 and os.path.basename(exe_args[0]) == "modelrun" and len(scripts) > 1:
        step = max(1, len(scripts) // 100)
        xcheck_record(exe_args[1], [s.text() for s in scripts[::step]])
    n = min(NCPU, max(1, len(scripts) // 20 + 1))
    chunks = [scripts[i::n] for i in range(n)]
    results = {}
    with ThreadPoolExecutor(n) as ex:
        for r in ex.map(lambda c: _run_chunk(exe_args, c, per_script_timeout), chunks):
            results.update(r)
    return results

def run_impl(scripts, per_script_timeout=0.5):
    return run_parallel([os.path.join(BUILD, "worker")], scripts, per_script_timeout)

def run_model(scripts, mode="model"):
    return run_parallel([os.path.join(BUILD, "modelrun"), mode], scripts, 0.5)

# ---------------------------------------------------------------------------------------------
# Canonical reply trees

def parse_reply(s):
    """canonical reply text -> nested python structure"""
    toks = re.findall(r"\[|\]|[^\s\[\]]+", s)
    pos = 0
    def val():
        nonlocal pos
        t = toks[pos]; pos += 1
        if t == "[" or (len(t) == 2 and t[1] == "[" ):
            items = []
            while toks[pos] != "]":
                items.append(val())
            pos += 1
            return ("arr", items)
        if t in ("~", "%", ">") and pos < len(toks) and toks[pos] == "[":
            pos += 1
            items = []
            while toks[pos] != "]":
                items.append(val())
            pos += 1
            return (t, items)
        return t
    try:
        v = val()
        return v
    except Exception:
        return ("unparsed", s)

def unhex(h):
    return bytes.fromhex(h) if h != "-" else b""

def float_text_to_frac(b):
    t = b.decode("latin-1").strip().lower()
    if t in ("inf", "+inf"): return "inf"
    if t == "-inf": return "-inf"
    try:
        return Fraction(float(t))
    except Exception:
        return None

def frac_text(fr):
    if isinstance(fr, str): return fr
    return "%d/%d" % (fr.numerator, fr.denominator)

_FRAC = re.compile(r"\bf(-?\d+)/(\d+)")
def round_fracs(text):
    """The model computes with exact rationals, Go with binary64: a decimal such as -0.25007 (APPEND of digits to a
    float) is stored by Go as the nearest binary64.  Both sides are compared after rounding every rational to
    binary64 once (exact for the dyadic values the generators use; for the others this states that Go holds the
    correctly rounded value of what the model holds)."""
    def r(m):
        q = int(m.group(2))
        if q == 0:
            return m.group(0)
        return "f%r" % float(Fraction(int(m.group(1)), q))
    return _FRAC.sub(r, text)

def norm_scalar_reply(impl, model):
    """If the model says 'f<rat>' and the implementation printed the float as text, compare as numbers."""
    if isinstance(model, str) and model.startswith("f") and isinstance(impl, str) and impl[:1] in "$+,":
        fr = float_text_to_frac(unhex(impl[1:]))
        if fr is not None:
            return round_fracs("f" + frac_text(fr)), round_fracs(model)
    return impl, model

def _equiv(x, y):
    """impl item x and model item y denote the same reply (floats printed as text compared as numbers)"""
    if x == y:
        return True
    if isinstance(x, tuple) and isinstance(y, tuple):
        if x[0] == y[0] == "arr":
            return len(x[1]) == len(y[1]) and all(_equiv(p, q) for p, q in zip(x[1], y[1]))
        return len(x) == len(y) and all(_equiv(p, q) for p, q in zip(x, y))
    u, v = norm_scalar_reply(x, y)
    return u == v

def norm_tree(impl, model, unordered=False, pairs=False):
    """-> (x, y) with x == y iff the two replies are the same up to float text and, when `unordered`
    (the server ranges over a Go map), up to the order of the top-level items (of the field/value pairs
    when `pairs`).  Unordered items are matched as multisets: exact matches first, then a float text
    against the model's rational — never by position, since the positions are what is arbitrary."""
    if isinstance(impl, tuple) and isinstance(model, tuple) and impl[0] == model[0] == "arr":
        a, b = list(impl[1]), list(model[1])
        if not unordered:
            if len(a) == len(b):
                z = [norm_tree(x, y) for x, y in zip(a, b)]
                a, b = [x for x, _ in z], [y for _, y in z]
            return ("arr", a), ("arr", b)
        if pairs and len(a) % 2 == 0 and len(b) % 2 == 0:
            a = [tuple(a[i:i + 2]) for i in range(0, len(a), 2)]
            b = [tuple(b[i:i + 2]) for i in range(0, len(b), 2)]
        if len(a) == len(b):
            rest_b = list(b)
            left = []
            for x in a:
                if x in rest_b:
                    rest_b.remove(x)
                else:
                    left.append(x)
            ok = True
            for x in left:
                hit = next((y for y in rest_b if _equiv(x, y)), None)
                if hit is None:
                    ok = False
                    break
                rest_b.remove(hit)
            if ok:
                bs = sorted(b, key=repr)
                return ("arr", bs), ("arr", bs)
        return ("arr", sorted(a, key=repr)), ("arr", sorted(b, key=repr))
    return norm_scalar_reply(impl, model)

_EMPTY_DB = re.compile(r" db-?\d+\{\}v\[\]")
def norm_digest(line, with_mem=True, with_vol=True, round_floats=False):
    """round_floats: only for comparing two digests with each other (never for text handed to an extracted
    reference, which parses the rationals)."""
    line = _EMPTY_DB.sub("", line)
    if round_floats:
        line = round_fracs(line)
    if not with_mem:
        line = re.sub(r"mem=-?\d+", "mem=*", line)
    if not with_vol:
        line = re.sub(r"\}v\[[0-9a-f,\-]*\]", "}", line)
    return line

# Commands whose reply is drawn at random and whose model runs one fixed resolution of the draw (Model/CmdZRand.v
# default_zpick, Model/CmdKeyspace.v default_keysource): the model-vs-implementation comparison keeps the shape of the reply
# only; whether the drawn members / key are an allowed outcome is judged by the reference of C17 (ZRANDMEMBER, spec17) and by
# the digest oracle of C13 (RANDOMKEY).  Both are read-only: the rest of the script is compared strictly.
RANDOM_WORDS = ("ZRANDMEMBER", "RANDOMKEY")

def random_reply_shape(word, tree):
    """what of a randomised reply does not depend on the draw"""
    if word == "RANDOMKEY":
        return "bulk" if isinstance(tree, str) and tree[:1] == "$" else tree
    if isinstance(tree, tuple) and tree[0] == "arr":
        return ("arr", [("arr", len(x[1])) if isinstance(x, tuple) and x[0] == "arr" else "?" for x in tree[1]])
    return tree

def compare_lines(script, impl_lines, model_lines, reply_opts=None, digest_opts=None):
    """Returns None when equal, else (index, impl, model)."""
    reply_opts = reply_opts or (lambda argv: {})
    cmds = [e for e in script.events if e[0] in ("cmd", "digest", "sweep", "rawcmd")]
    n = max(len(impl_lines), len(model_lines))
    for i in range(n):
        a = impl_lines[i] if i < len(impl_lines) else "<missing>"
        b = model_lines[i] if i < len(model_lines) else "<missing>"
        if a == b:
            continue
        if a.startswith("R ") and b.startswith("R "):
            ev = cmds[i] if i < len(cmds) else None
            opts = reply_opts(ev[2:]) if ev and ev[0] == "cmd" else {}
            x, y = norm_tree(parse_reply(a[2:]), parse_reply(b[2:]), **opts)
            if x == y:
                continue
            w = str(ev[2]).upper() if ev and ev[0] == "cmd" and len(ev) > 2 else ""
            if w in RANDOM_WORDS and random_reply_shape(w, parse_reply(a[2:])) == random_reply_shape(w, parse_reply(b[2:])):
                continue
        if a.startswith("G ") and b.startswith("G "):
            o = digest_opts or {}
            if norm_digest(a, round_floats=True, **o) == norm_digest(b, round_floats=True, **o):
                continue
        return (i, a, b)
    return None

# ---------------------------------------------------------------------------------------------
# Proof obligations: counted from this run's build

_QED = re.compile(r"^\s*(Qed|Defined)\.", re.M)
_THM = re.compile(r"^\s*(Theorem|Lemma|Corollary|Example|Fact|Remark|Proposition)\s+(\w+)", re.M)

def coq_cone(prop_file):
    """transitive dependencies (project files) of Properties/<prop>.v via coqdep"""
    p = sh("coqdep -Q . EV -sort %s" % prop_file, cwd=COQ, check=False)
    files = [f for f in p.stdout.split() if f.endswith(".v")]
    return files

def count_obligations(files):
    n, names = 0, []
    for f in files:
        path = os.path.join(COQ, f)
        if not os.path.exists(path):
            continue
        txt = open(path).read()
        n += len(_QED.findall(txt))
        names += [m.group(2) for m in _THM.finditer(txt)]
    return n, names

def discharged(files):
    """obligations whose file has an up-to-date .vo"""
    n = 0
    for f in files:
        v = os.path.join(COQ, f); vo = v + "o"
        if os.path.exists(vo) and os.path.getmtime(vo) >= os.path.getmtime(v):
            n += len(_QED.findall(open(v).read()))
    return n

def forbidden_scan():
    bad = []
    pat = re.compile(r"\b(Admitted|admit|Axiom|Parameter|Conjecture|Abort All)\b|Unset Guard|bypass_check|Admit Obligations|-type-in-type")
    for dp, _, fs in os.walk(COQ):
        for f in fs:
            if f.endswith(".v"):
                for i, line in enumerate(open(os.path.join(dp, f)), 1):
                    code = re.sub(r"\(\*.*?\*\)", "", line)
                    if pat.search(code):
                        bad.append("%s:%d: %s" % (os.path.relpath(os.path.join(dp, f), COQ), i, line.strip()))
    return bad

def assumptions_of(prop, log_text):
    """Text printed by `Print Assumptions` in Properties/<prop>.v, taken from the .vo compile output
    (re-run coqc on that file alone: cheap, and independent of make's incremental state)."""
    os.makedirs(os.path.join(BUILD, "pa"), exist_ok=True)
    p = sh("coqc -Q . EV Properties/%s.v -o %s" % (prop, os.path.join(BUILD, "pa", prop + ".vo")), cwd=COQ, check=False, timeout=900)
    return p.returncode == 0, p.stdout

# ---------------------------------------------------------------------------------------------
# Evidence / findings

def write_evidence(prop, tier, seed, coverage, assumptions, wall_s, violations, level="proof"):
    os.makedirs(os.path.join(VERIF, "evidence"), exist_ok=True)
    t0 = time.time()
    xc = extraction_crosscheck(prop, 24 if tier == "quick" else 300)
    if xc is not None:
        coverage = dict(coverage, extraction_crosscheck=xc)
        tb = list(coverage.get("trusted_base", []))
        tb.append("extraction + OCaml driver cross-checked on this run: %d sampled scripts re-evaluated by vm_compute "
                  "inside Coq, %d disagreements" % (xc["cases"], xc["disagreements"]))
        coverage["trusted_base"] = tb
        if xc["disagreements"] or xc["errors"]:
            path = write_replay(prop, "extraction", {"property": prop, "kind": "extracted runner and in-Coq evaluation disagree",
                                "no_longer_checks": "extraction cross-check", "detail": xc})
            print("VIOLATION property=%s replay=%s no-failing-input-found" % (prop, path))
            XCHECK_FAIL.append(path)
            violations += 1
    if tier == "thorough" and os.environ.get("VERIF_NO_COQCHK") != "1" and os.path.exists(os.path.join(COQ, "Properties", prop + ".vo")):
        ck = coqchk_prop(prop)
        coverage = dict(coverage, coqchk=ck)
        coverage["trusted_base"] = list(coverage.get("trusted_base", [])) + [
            "coqchk -silent -o re-checked Properties/%s.vo and its dependencies: %s" % (prop, "ok" if ck["ok"] else "FAILED")]
        if not ck["ok"]:
            path = write_replay(prop, "coqchk", {"property": prop, "kind": "coqchk rejects the compiled library",
                                "no_longer_checks": "coqchk EV.Properties.%s" % prop, "detail": ck})
            print("VIOLATION property=%s replay=%s no-failing-input-found" % (prop, path))
            XCHECK_FAIL.append(path)
            violations += 1
    wall_s += time.time() - t0
    ev = {"property_id": prop, "tier": tier, "seed": seed, "level": level, "coverage": coverage,
          "assumptions": assumptions, "wall_s": round(wall_s, 2), "violations": violations}
    with open(os.path.join(VERIF, "evidence", prop + ".json"), "w") as f:
        json.dump(ev, f, indent=1, sort_keys=True)

def coqchk_prop(prop):
    """Independent re-check (coqchk) of Properties/<prop>.vo and everything it depends on; cached per
    content of the .vo files of the cone.  -> dict(ok, summary, seconds, cached)"""
    cone = coq_cone("Properties/%s.v" % prop)
    h = hashlib.sha256()
    for f in cone:
        vo = os.path.join(COQ, f + "o")
        if os.path.exists(vo):
            h.update(f.encode()); h.update(open(vo, "rb").read())
    key = h.hexdigest()[:24]
    stamp = os.path.join(BUILD, "coqchk_%s_%s.txt" % (prop, key))
    if os.path.exists(stamp):
        txt = open(stamp).read()
        return {"ok": "CONTEXT SUMMARY" in txt, "summary": txt[txt.find("CONTEXT SUMMARY"):][:1500], "seconds": 0, "cached": True}
    t0 = time.time()
    p = sh("timeout 5400 coqchk -silent -o -Q . EV EV.Properties.%s 2>&1" % prop, cwd=COQ, check=False, timeout=5500)
    txt = p.stdout
    ok = p.returncode == 0 and "CONTEXT SUMMARY" in txt
    if ok:
        open(stamp, "w").write(txt)
    return {"ok": ok, "summary": (txt[txt.find("CONTEXT SUMMARY"):] if ok else txt[-1500:])[:1500],
            "seconds": round(time.time() - t0, 1), "cached": False}

def extraction_crosscheck(prop, per_mode):
    """Re-evaluate a sample of the scripts this check sent to the extracted runner with vm_compute."""
    if not XCHECK_POOL or os.environ.get("VERIF_NO_XCHECK") == "1":
        return None
    from concurrent.futures import ThreadPoolExecutor
    modes = sorted(XCHECK_POOL)
    with ThreadPoolExecutor(len(modes)) as ex:
        res = list(ex.map(lambda m: vm_crosscheck(m, XCHECK_POOL[m], per_mode, tag="%s_%s" % (prop, m)), modes))
    out = {"per_mode": dict(zip(modes, res)), "cases": sum(r.get("cases", 0) for r in res),
           "disagreements": sum(len(r.get("mismatches", [])) for r in res),
           "errors": [r["error"] for r in res if "error" in r]}
    return out

def known_findings(prop):
    path = os.path.join(VERIF, "known_findings.json")
    if not os.path.exists(path):
        return []
    return [k for k in json.load(open(path)).get("findings", []) if k["property"] == prop]

def write_replay(prop, name, obj):
    d = os.path.join(VERIF, "replays")
    os.makedirs(d, exist_ok=True)
    path = os.path.join(d, "%s_%s.json" % (prop, name))
    json.dump(obj, open(path, "w"), indent=1)
    return path

# ---------------------------------------------------------------------------------------------
# Extraction cross-check: the same scripts evaluated by vm_compute inside Coq (no extraction, no
# OCaml driver) must print exactly what the extracted runner printed.

MODE_FUN = {
    "model": ("Model.Script", "run_script"), "spec15": ("Spec.SpecRun", "run_spec15"),
    "spec14": ("Spec.SpecRunHash", "run_spec14"), "spec16": ("Spec.SpecRunSet", "run_spec16"),
    "spec17": ("Spec.SpecRunZSet", "run_spec17"), "spec17p": ("Spec.SpecRunZSet", "run_spec17p"),
    "acl": ("Model.AclWorld", "run_acl_script"), "spec06": ("Spec.SpecRunAcl", "run_spec06"),
    "model08": ("Model.ScriptEvict", "run_model08"), "spec08": ("Spec.SpecEvict", "run_spec08"),
    "model18": ("Spec.SpecRunPubSub", "run_model18"), "spec18": ("Spec.SpecRunPubSub", "run_spec18"),
    "aof": ("Model.AofRun", "run_aof"), "spec02": ("Spec.SpecRunDurable", "run_spec02"),
    "snap": ("Model.SnapServer", "run_snap"), "spec12": ("Spec.SpecRunWire", "run_spec12"),
    "model04": ("Model.ScriptExpiry", "run_model04"), "spec04": ("Spec.SpecRunExpiry", "run_spec04"),
    "conc": ("Model.ConcRun", "run_conc_script"), "raft": ("Model.RaftRun", "run_raft"),
    "spec01": ("Spec.SpecRunKV", "run_spec01"),
}

def _coq_str(s):
    return '"' + s.replace('"', '""') + '"'

def _coq_lines(lines):
    return "[" + "; ".join(_coq_str(l) for l in lines) + "]"

def split_blocks(text):
    """raw line-protocol text -> list of blocks (each a list of lines starting with its 'S ' line)"""
    blocks, cur = [], None
    for line in text.splitlines():
        if line == "":
            continue
        if line.startswith("S "):
            if cur is not None:
                blocks.append(cur)
            cur = [line]
        elif cur is not None:
            cur.append(line)
    if cur is not None:
        blocks.append(cur)
    return blocks

def vm_crosscheck(mode, texts, limit=40, tag=None):
    """texts: list of raw script texts (one script each).  Returns dict with cases / mismatches / seconds /
    skipped; {'error': ...} when coqc itself fails.  Scripts with bytes outside printable ASCII or longer
    than 400 lines are skipped (they cannot be written as Coq string literals cheaply)."""
    t0 = time.time()
    if mode not in MODE_FUN:
        return {"cases": 0, "mismatches": [], "skipped": len(texts), "note": "mode %s has no in-Coq entry" % mode}
    ok = []
    for t in texts:
        lines = [l for l in t.splitlines() if l != ""]
        if 0 < len(lines) <= 150 and sum(len(l) for l in lines) <= 6000 and all(32 <= ord(c) < 127 for l in lines for c in l):
            ok.append(lines)
    skipped = len(texts) - len(ok)
    if len(ok) > limit:
        step = len(ok) / float(limit)
        ok = [ok[int(i * step)] for i in range(limit)]
    if not ok:
        return {"cases": 0, "mismatches": [], "skipped": skipped}
    inp = "".join("\n".join(ls) + "\n" for ls in ok)
    p = subprocess.run([os.path.join(BUILD, "modelrun"), mode], input=inp, stdout=subprocess.PIPE,
                       stderr=subprocess.PIPE, text=True, timeout=600)
    outs = split_blocks(p.stdout)
    if p.returncode != 0 or len(outs) != len(ok):
        return {"error": "extracted runner gave %d blocks for %d scripts (rc=%d)" % (len(outs), len(ok), p.returncode)}
    mod, fun = MODE_FUN[mode]
    d = os.path.join(BUILD, "vmx")
    os.makedirs(d, exist_ok=True)
    name = "X_%s" % (tag or mode)
    src = ["From Coq Require Import String List.", "From EV Require Import %s." % mod,
           "Import ListNotations.", "Local Open Scope string_scope.",
           "Definition same (a b : list string) : bool := if list_eq_dec string_dec a b then true else false."]
    for k, (i, o) in enumerate(zip(ok, outs)):
        # one definition per case: a single huge list literal overflows coqc's stack
        src.append("Definition c%d : bool := Eval vm_compute in same (%s %s)\n   %s." % (k, fun, _coq_lines(i), _coq_lines(o)))
    src.append("Definition verdict : list nat := Eval vm_compute in")
    src.append("  " + " ++ ".join("(if c%d then [] else [%d%%nat])" % (k, k) for k in range(len(ok))) + ".")
    src.append("Print verdict.")
    path = os.path.join(d, name + ".v")
    open(path, "w").write("\n".join(src) + "\n")
    q = sh("timeout 900 coqc -Q %s EV %s" % (COQ, path), cwd=d, check=False, timeout=1000)
    m = re.search(r"verdict\s*=\s*(\[[^\]]*\])", q.stdout.replace("\n", " "))
    if q.returncode != 0 or not m:
        return {"error": "coqc on the cross-check file failed: " + q.stdout[-600:]}
    bad = [int(x) for x in re.findall(r"\d+", m.group(1))]
    return {"cases": len(ok), "mismatches": [ok[i][0] for i in bad], "skipped": skipped,
            "seconds": round(time.time() - t0, 1), "function": "%s.%s" % (mod, fun)}
