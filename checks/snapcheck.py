"""Shared machinery of C10 and C03: the snapcrash harness and the `snap` mode of the model runner replace the
worker and the `model` mode; comparison of their lines; the acceptance oracle (Python, independent of the model)
that judges implementation traces; generators of datasets and histories."""
import os, re, shutil, glob
import common, framework
from common import *
from framework import PropertyCheck, parse_digest

SNAP_BASE = os.path.join(os.path.dirname(VERIF), "")  # /var/tmp/ag-<name>/ when run from a builder's copy
if not os.access(SNAP_BASE, os.W_OK) or SNAP_BASE.rstrip("/") in ("", "/"):
    SNAP_BASE = os.path.join(BUILD, "snapdata")
DATA_BASE = os.environ.get("SNAP_BASE", SNAP_BASE)

def _env(tier):
    e = dict(os.environ, SNAP_BASE=DATA_BASE)
    if tier != "thorough":
        e["SNAP_TORN"] = "sample"
    return e

_TIER = {"tier": "quick"}

def snap_run_impl(scripts, per_script_timeout=6.0):
    os.makedirs(DATA_BASE, exist_ok=True)
    old = dict(os.environ)
    os.environ.update(_env(_TIER["tier"]))
    try:
        return run_parallel([os.path.join(BUILD, "snapcrash")], scripts, max(per_script_timeout, 6.0))
    finally:
        os.environ.clear(); os.environ.update(old)
        for d in glob.glob(os.path.join(DATA_BASE, "data-*")):
            shutil.rmtree(d, ignore_errors=True)

def snap_run_model(scripts, mode="model"):
    if mode == "pyoracle":
        return {s.id: [] for s in scripts}
    return run_parallel([os.path.join(BUILD, "modelrun"), "snap" if mode == "model" else mode], scripts, 1.0)

_CMP = {"mem": True}   # C03 histories mutate sets / sorted sets in place, which Go does not account (C19's subject)

def norm_line(l):
    l = re.sub(r" n=\d+", "", l)
    if not _CMP["mem"]:
        l = re.sub(r"mem=-?\d+", "mem=*", l)
    l = re.sub(r"\}v\[([0-9a-f,\-]*)\]", lambda m: "}v[" + ",".join(sorted(x for x in m.group(1).split(",") if x)) + "]", l)
    return common._EMPTY_DB.sub("", l)

def snap_compare_lines(script, impl_lines, model_lines, reply_opts=None, digest_opts=None):
    n = max(len(impl_lines), len(model_lines))
    for i in range(n):
        a = impl_lines[i] if i < len(impl_lines) else "<missing>"
        b = model_lines[i] if i < len(model_lines) else "<missing>"
        if a == b or norm_line(a) == norm_line(b):
            continue
        if a.startswith("R ") and b.startswith("R "):
            x, y = common.norm_tree(common.parse_reply(a[2:]), common.parse_reply(b[2:]), unordered=True)
            if x == y:
                continue
        return (i, a, b)
    return None

# the generic flow (framework.PropertyCheck.run, replay.replay) calls these names
for _m in (common, framework):
    _m.run_impl, _m.run_model, _m.compare_lines = snap_run_impl, snap_run_model, snap_compare_lines
run_impl, run_model, compare_lines = snap_run_impl, snap_run_model, snap_compare_lines

# ---------------------------------------------------------------------------------------------
# Oracle: the statement of C03 / C10 evaluated on an implementation trace.

def purge(dbs, now):
    out = {}
    for db, ents in dbs.items():
        kept = {k: v for k, v in ents.items() if not (v[1] != 0 and v[1] < now)}
        if kept:
            out[db] = kept
    return out

def result_of(text):
    """'err=0 ls=5 mem=.. db0{..}' -> (err, ls, dbs) ; None for DIED / MODIFIED"""
    if text.startswith("DIED") or text.endswith("MODIFIED"):
        return None
    m = re.match(r"err=(\d) ls=(-?\d+) (.*)$", text)
    if not m:
        return None
    return (int(m.group(1)), int(m.group(2)), purge(parse_digest(m.group(3))["dbs"], 0))

def oracle(script, impl, check_c10=True, check_c03=True, thr=None):
    """Returns None when the trace is accepted, else a text saying what the property forbids."""
    now = int(script.cfg.get("now", framework.DEFAULT_NOW))
    thr = int(script.cfg.get("snapthreshold", 10**6))
    last_ok = None            # (dbs at the snapshot, time)
    cur = {}                  # last digest seen (dbs)
    changes = 0
    countable = True
    i = 0
    def bad(msg, idx):
        return "line %d (%s): %s" % (idx, impl[idx] if idx < len(impl) else "<missing>", msg)
    expected_after_restart = None
    for ev in script.events:
        kind = ev[0]
        if kind == "advance":
            now += ev[1]; continue
        if kind == "preset":
            changes += 1; continue
        if kind == "cmd":
            if i >= len(impl): return bad("trace ends early", i)
            line = impl[i]; i += 1
            if line in ("DIED", "HUNG") or line == "R !":
                return bad("the server died, hung or panicked", i - 1)
            name = str(ev[2]).upper()
            if name == "LASTSAVE":
                want = "R :%d" % last_ok[1] if last_ok else "R -"
                if check_c03 and line != want:
                    return bad("LASTSAVE should report %s" % want, i - 1)
            elif name == "SET" and len(ev) == 5 and line.startswith("R +"):
                changes += 1
            elif name in ("GET", "LASTSAVE", "TTL", "EXISTS"):
                pass
            else:
                countable = False
            continue
        if kind == "digest":
            if i >= len(impl): return bad("trace ends early", i)
            line = impl[i]; i += 1
            if not line.startswith("G "): return bad("digest expected", i - 1)
            cur = parse_digest(line)["dbs"]
            if expected_after_restart is not None and check_c03:
                if purge(cur, 0) != expected_after_restart:
                    return bad("after the restart the server must serve the dataset of the last snapshot minus expired keys: %r" % (expected_after_restart,), i - 1)
                expected_after_restart = None
            continue
        raw = ev[1] if kind == "raw" else ""
        f = raw.split()
        if not f: continue
        if f[0] in ("V", "K", "F", "KW"):
            if f[0] == "V":
                if i >= len(impl): return bad("trace ends early", i)
                if impl[i] in ("HUNG", "DIED"): return bad("SAVE never finished", i)
                i += 1   # the reply of SAVE
            ks = []
            while i < len(impl) and impl[i].startswith("K "):
                ks.append((i, impl[i])); i += 1
            if i >= len(impl) or not impl[i].startswith("V "): return bad("outcome of the snapshot attempt expected", i)
            m = re.match(r"V (\w+) ls=(-?\d+) was=(-?\d+)", impl[i]); vi = i; i += 1
            res, ls, was = m.group(1), int(m.group(2)), int(m.group(3))
            snap_dbs = purge(cur, now)
            prev = (0, last_ok[1], purge(last_ok[0], now)) if last_ok else (1, 0, {})
            if res == "ok":
                if ls != now: return bad("a completed snapshot sets the last-save time to its own time %d" % now, vi)
                new = (0, now, snap_dbs)
            else:
                new = None
                if ls != was: return bad("an attempt that fails or finds nothing new must leave the last-save time alone", vi)
                if f[0] != "F" and res == "fail": return bad("the snapshot attempt failed", vi)
                if res == "skip" and check_c03:
                    if not last_ok or purge(last_ok[0], now) != snap_dbs:
                        return bad("nothing-new although the dataset differs from the last snapshot", vi)
            if check_c10:
                for idx, kl in ks:
                    name, rest = kl[2:].split(" ", 1)
                    r = result_of(re.sub(r"^n=\d+ ", "", rest))
                    if r is None: return bad("restore of a crash image died or modified the image", idx)
                    if r != prev and r != new:
                        return bad("a crash image restores neither the previous snapshot %r nor the new one %r" % (prev, new), idx)
                    if name == "enter" and r != prev:
                        return bad("before the attempt the directory must restore the previous snapshot", idx)
                    if name == "exit" and new is not None and r != new:
                        return bad("after a completed attempt the directory must restore the new snapshot", idx)
            if res == "ok":
                last_ok = (cur, now); changes = 0
            if f[0] == "KW":
                # the reply of the command served during the snapshot (its effect is not in the snapshot: `cur` is the
                # digest taken before)
                if i >= len(impl) or not impl[i].startswith("R "): return bad("reply of the command served during the snapshot expected", i)
                if impl[i] == "R !": return bad("the server panicked", i)
                kwargv = [bytes.fromhex(h).decode("latin-1") for h in f[2:]]
                if len(kwargv) == 3 and kwargv[0].upper() == "SET" and impl[i].startswith("R +"):
                    changes += 1       # a write that is not in the snapshot: it counts towards the next automatic one
                else:
                    countable = False
                i += 1
            continue
        if f[0] == "T":
            if i >= len(impl): return bad("trace ends early", i)
            line = impl[i]; i += 1
            m = re.match(r"T err=(\d) ls=(-?\d+)", line)
            if not m: return bad("start-up failed", i - 1)
            if last_ok:
                if (m.group(1), int(m.group(2))) != ("0", last_ok[1]):
                    return bad("start-up must restore the last snapshot (time %d)" % last_ok[1], i - 1)
                expected_after_restart = purge(last_ok[0], now)
                changes = sum(len(v) for v in expected_after_restart.values())
            else:
                if m.group(1) != "1" or int(m.group(2)) != 0: return bad("nothing to restore", i - 1)
                expected_after_restart = {}
                changes = 0
            continue
        if f[0] == "Z":
            if i >= len(impl): return bad("trace ends early", i)
            line = impl[i]; i += 1
            m = re.match(r"Z taken=(\d) ls=(-?\d+)", line)
            if not m: return bad("Z line expected", i - 1)
            taken, ls = int(m.group(1)), int(m.group(2))
            if check_c03 and countable:
                same = bool(last_ok) and purge(last_ok[0], now) == purge(cur, now)
                if changes >= thr and not taken and not same:
                    return bad("%d changes >= threshold %d and more than one interval has passed: a snapshot is due" % (changes, thr), i - 1)
                if changes < thr and taken:
                    return bad("snapshot taken with %d changes < threshold %d" % (changes, thr), i - 1)
                if taken and ls != now: return bad("LASTSAVE must be the time of the automatic snapshot", i - 1)
            if taken:
                last_ok = (cur, now); changes = 0
            continue
    return None

# ---------------------------------------------------------------------------------------------
# Generators

KEYS = ["a", "b", "k1", "\xffk", "caf\xc3\xa9", "", "sA"]   # latin-1 text = bytes
STRS = ["v", "", "hello world", "\xfe\x00\x01", "\xc3\x28", "007", "s", "bQ==", "\"q\"\n"]

def rand_scalar(rng):
    t = rng.randrange(3)
    if t == 0: return vstr(rng.choice(STRS))
    if t == 1: return vint(rng.choice([0, 1, -5, 42, 2**40, -2**62]))
    return rng.choice([vfloat(3, 2), vfloat(-1, 4), vfloat(5), "finf", "f-inf"])

def rand_value(rng):
    t = rng.randrange(6)
    if t == 0: return rand_scalar(rng)
    if t == 1: return vlist([rng.choice(STRS) for _ in range(rng.randrange(0, 4))])
    if t == 2: return vhash({rng.choice(STRS): rand_scalar(rng) for _ in range(rng.randrange(0, 3))})
    if t == 3: return vset([rng.choice(STRS) for _ in range(rng.randrange(0, 4))])
    if t == 4: return vzset({rng.choice(STRS): rng.choice(["3/2", "-1/4", "7/1", "inf", "-inf"]) for _ in range(rng.randrange(0, 3))})
    return rand_scalar(rng)

def rand_deadline(rng, now):
    return rng.choice([0, 0, 0, now - 5, now + 1, now + 3, now + 50, now + 10**6])

def put_dataset(s, rng, now, n=None):
    for _ in range(n if n is not None else rng.randrange(1, 7)):
        s.preset(rng.choice([0, 0, 1, 3]), rng.choice(KEYS), rand_value(rng), rand_deadline(rng, now))
    return s

class SnapCheck(PropertyCheck):
    spec_mode = "pyoracle"
    check_c10 = True
    check_c03 = True
    compare_mem = True
    def __init__(self, tier, seed):
        super().__init__(tier, seed)
        _TIER["tier"] = tier
        _CMP["mem"] = self.compare_mem
    def per_script_timeout(self):
        return 8.0
    def spec_script(self, script, impl_lines):
        return script
    def spec_compare(self, script, impl_lines, spec_lines):
        return oracle(script, impl_lines, self.check_c10, self.check_c03)
    def corr_name(self, script, idx):
        return "corr:%s:line%d" % (self.prop, idx)
    def nontrivial(self, script, impl_lines):
        return any(l.startswith("V ok") or l.startswith("Z taken=1") for l in impl_lines)
    def in_known_trigger(self, script):
        # C10-same-ms: an attempt made to fail after its state file is in place, in the millisecond of the last snapshot
        last = None; now = 0
        for e in script.events:
            if e[0] == "advance": now += e[1]
            elif e[0] == "raw":
                f = e[1].split()
                if f and f[0] in ("V", "K"): last = now
                if f and f[0] == "F" and f[1] == "manifest" and last == now: return "C10-same-ms"
        return None
    def replay_known(self, kf):
        s = script_from_json(kf["witness"])
        im = snap_run_impl([s])
        return bool(oracle(s, im.get(s.id, []), True, True))
    trusted_extra = ["harness/snapcrash (failpoint images, torn offsets, restart, real-time ticker window), hooks internal/snapshot/verif_on.go + sugardb/verif_snapshot_on.go",
                     "acceptance oracle checks/snapcheck.py:oracle (Python; states C03/C10 on implementation traces, independent of the model)",
                     "file-system assumptions listed at the head of coq/Model/SnapFs.v; encoding/json, base64, strconv round trips (codec_ok hypotheses)"]
