"""C07 Replication: replicas apply the leader's writes identically, in order.

(a) twin-FSM harness (build/fsm): 2-3 fresh cluster-mode instances without sockets, each with its own
    virtual clock (and its own math/rand draws), are fed one generated raft log; the property's own
    oracle compares the nodes with each other (digests of every database, responses), the extracted
    model (build/modelrun raft) is compared with every node.
(b) thorough tier only: a real 3-node loopback cluster (build/cluster), digests after quiescence.
"""
import json, os, re, subprocess, sys, time
import common, framework
from common import *
from framework import PropertyCheck
import gen_mixed, gen_kv

NOW = 1700000000000
FAR = 4200000000000          # absolute deadlines of the deterministic streams: after every clock in play
WALL = 2500000000000         # between the virtual clocks and FAR; Persist/Restore filter by the real clock, which lies there too
DBS = [0, 1, 2, 10]
SYNC_READS = set()
NONDET = {"EXPIRE", "PEXPIRE", "SPOP", "SRANDMEMBER", "TTL", "PTTL"}

def run_impl07(scripts, per_script_timeout=1.0):
    return common.run_parallel([os.path.join(BUILD, "fsm")], scripts, per_script_timeout)

def run_model07(scripts, mode="model"):
    return common.run_model(scripts, "raft" if mode == "model" else mode)

def argv_of(line):
    f = line.split()
    if f[0] == "L": return [unhex(h).decode("latin-1") for h in f[2:]]
    if f[0] in ("H", "LO"): return [unhex(h).decode("latin-1") for h in f[3:]]
    return []

def is_det(argv):
    """the Python twin of entry_det_b (Proofs/RaftProofs.v) with horizon FAR"""
    if not argv: return True
    w = argv[0].upper()
    up = [a.upper() for a in argv]
    if w in NONDET: return False
    def absolute(opt, scale):
        for i, a in enumerate(up):
            if a == opt and i + 1 < len(argv):
                try:
                    if int(argv[i + 1]) * scale < FAR: return False
                except ValueError: pass
        return True
    if w == "SET":
        if "EX" in up[3:] or "PX" in up[3:]: return False
        return absolute("EXAT", 1000) and absolute("PXAT", 1)
    if w == "GETEX":
        if len(argv) > 3 and up[2] in ("EX", "PX"): return False
        if len(argv) > 3 and up[2] == "EXAT":
            try: return int(argv[3]) * 1000 >= FAR
            except ValueError: return True
        if len(argv) > 3 and up[2] == "PXAT":
            try: return int(argv[3]) >= FAR
            except ValueError: return True
        return True
    if w in ("EXPIREAT", "PEXPIREAT") and len(argv) > 2:
        try: return int(argv[2]) * (1 if w == "PEXPIREAT" else 1000) >= FAR
        except ValueError: return True
    return True

# Commands handed to the leader (H lines) reach the log in their absolute form (internal.AbsoluteExpiryForm, Coq:
# Model/AbsForm.v): a relative expiry is deterministic when the deadline it denotes on the leader lies after every clock
# in play.  No node's clock passes CLOCK_MAX in a generated script (start <= NOW + 100000, advances < 400000 in all).
CLOCK_MAX = NOW + 500000
REL_S7 = ["3000", "86400", "2600000000", "+7200"]
REL_MS7 = ["3000000", "86400000", "2600000000000"]
MAX_REL_S, MAX_REL_MS = 9223372036, 9223372036854      # beyond: time.Duration overflows (KF-C04-duration-overflow), not rewritten

def rel_kind(argv):
    """a command with a relative expiry (shape only)"""
    if len(argv) < 3: return False
    w = argv[0].upper(); up = [a.upper() for a in argv]
    if w in ("EXPIRE", "PEXPIRE"): return True
    if w == "SET": return "EX" in up[3:] or "PX" in up[3:]
    if w == "GETEX": return len(argv) > 3 and up[2] in ("EX", "PX")
    return False

def is_det_h(argv):
    """the Python twin of entry_det_b CLOCK_MAX (absolute_form now argv) for now >= NOW: a command handed to the leader"""
    if not argv: return True
    w = argv[0].upper(); up = [a.upper() for a in argv]
    if w in ("SPOP", "SRANDMEMBER", "TTL", "PTTL"): return False
    def rel_ok(v, milli):
        try: n = int(v)
        except ValueError: return True          # refused by the handler on every node alike
        if abs(n) > (MAX_REL_MS if milli else MAX_REL_S): return False
        return NOW + n * (1 if milli else 1000) >= CLOCK_MAX
    if w in ("EXPIRE", "PEXPIRE"):
        return rel_ok(argv[2], w == "PEXPIRE") if len(argv) > 2 else True
    if w == "GETEX" and len(argv) > 3 and up[2] in ("EX", "PX"):
        return rel_ok(argv[3], up[2] == "PX")
    if w == "SET":
        for i in range(3, len(argv) - 1):
            if up[i] in ("EX", "PX") and not rel_ok(argv[i + 1], up[i] == "PX"): return False
        return is_det([a for i, a in enumerate(argv) if not (up[i] in ("EX", "PX") and i >= 3)])
    return is_det(argv)

REL_CMDS = [["SET", "K", "v", "EX", "S"], ["SET", "K", "v", "PX", "M"], ["SET", "K", "7", "NX", "EX", "S"], ["SET", "K", "v", "GET", "px", "M"],
            ["EXPIRE", "K", "S"], ["EXPIRE", "K", "S", "NX"], ["EXPIRE", "K", "S", "GT"], ["expire", "K", "S", "lt"], ["PEXPIRE", "K", "M"],
            ["PEXPIRE", "K", "M", "XX"], ["GETEX", "K", "EX", "S"], ["GETEX", "K", "PX", "M"], ["getex", "K", "px", "M"],
            ["SET", "K", "v"], ["SET", "K", "12"], ["RPUSH", "K", "x"]]

def rand_rel_cmd(rng):
    return [rng.choice(gen_mixed.KEYS) if a == "K" else rng.choice(REL_S7) if a == "S" else rng.choice(REL_MS7) if a == "M" else a
            for a in rng.choice(REL_CMDS)]

def make_det_h(rng, argv):
    """turn a generated command into one that is deterministic when handed to the leader, keeping relative expiries relative"""
    argv = ascii_only(argv)
    if is_det_h(argv): return argv
    w = argv[0].upper(); up = [a.upper() for a in argv]
    if w == "EXPIRE" and len(argv) > 2: return argv[:2] + [rng.choice(REL_S7)] + argv[3:]
    if w == "PEXPIRE" and len(argv) > 2: return argv[:2] + [rng.choice(REL_MS7)] + argv[3:]
    if w == "GETEX" and len(argv) > 3 and up[2] in ("EX", "PX"):
        return argv[:3] + [rng.choice(REL_S7 if up[2] == "EX" else REL_MS7)]
    if w == "SET":
        out = argv[:3]; i = 3
        while i < len(argv):
            if up[i] == "EX" and i + 1 < len(argv): out += [argv[i], rng.choice(REL_S7)]; i += 2
            elif up[i] == "PX" and i + 1 < len(argv): out += [argv[i], rng.choice(REL_MS7)]; i += 2
            elif up[i] in ("EXAT", "PXAT") and i + 1 < len(argv): out += ["PXAT", str(FAR + rng.randint(0, 3000))]; i += 2
            else: out.append(argv[i]); i += 1
        if is_det_h(out): return out
    return make_det(rng, argv)

def ascii_only(argv):
    # the log entry is JSON: bytes that are not valid UTF-8 do not survive it (recorded finding); keep to ASCII
    return [a if all(ord(ch) < 0x80 for ch in a) else "bin" for a in argv]

def make_det(rng, argv):
    """turn a generated command into one that passes is_det, keeping its shape"""
    argv = ascii_only(argv)
    if is_det(argv): return argv
    w = argv[0].upper()
    k = argv[1] if len(argv) > 1 else "a"
    if w in ("EXPIRE", "EXPIREAT"): return ["EXPIREAT", k, str(FAR // 1000 + rng.randint(0, 3))] + argv[3:]
    if w in ("PEXPIRE", "PEXPIREAT"): return ["PEXPIREAT", k, str(FAR + rng.randint(0, 3000))] + argv[3:]
    if w == "SET":
        out = argv[:3]; i = 3
        while i < len(argv):
            if argv[i].upper() in ("EX", "PX", "EXAT", "PXAT"):
                out += ["PXAT", str(FAR + rng.randint(0, 3000))]; i += 2
            else:
                out.append(argv[i]); i += 1
        return out
    if w == "GETEX": return ["GETEX", k, "PXAT", str(FAR + rng.randint(0, 3000))]
    if w == "SPOP": return ["SREM", k, "m1"]
    if w == "SRANDMEMBER": return ["SCARD", k]
    return ["PERSIST", k]

def L(s, db, argv):
    s.raw("L %d %s" % (db, " ".join(hx(a) for a in argv)), ["cmd", db] + list(argv))
def H(s, node, db, argv):
    s.raw("H %d %d %s" % (node, db, " ".join(hx(a) for a in argv)), ["cmd", db] + list(argv) + ["@node%d" % node])

def new_script(sid, kind, nodes=3, leader=0, forward=0, nows=None):
    nows = nows or [NOW, NOW + 5000, NOW + 100000][:nodes]
    return Script(sid, {"nodes": nodes, "now": ",".join(str(n) for n in nows), "leader": leader,
                        "forward": forward, "kind": kind})

def rand_entry(rng, s, det):
    r = rng.random()
    db = rng.choice(DBS)
    if r < 0.04:
        s.raw("K %d %s" % (db, hx(rng.choice(gen_mixed.KEYS))), ["deletekey", db])
    elif r < 0.05:
        s.raw("Y %s" % hx("bogus"), ["othertype"])
    elif r < 0.09:
        L(s, db, [rng.choice(["FLUSHDB", "FLUSHDB", "FLUSHALL"])])
    elif r < 0.15:
        s.raw("A %d %d" % (rng.randrange(int(s.cfg["nodes"])), rng.choice([1, 20, 1500, 5001])), ["advance"])
    else:
        argv = gen_mixed.rand_cmd(rng, inplace_ok=True)
        if not det and (rel_kind(argv) or (argv and argv[0].upper() in ("TTL", "PTTL"))):
            # the leader never puts such an entry into the log: it is handed to the leader instead
            H(s, int(s.cfg["leader"]), db, ascii_only(argv) if rel_kind(argv) else ["PERSIST", argv[1] if len(argv) > 1 else "a"])
        else:
            L(s, db, make_det(rng, argv) if det else ascii_only(argv))

def det_log(rng, sid, length):
    s = new_script(sid, "det")
    for _ in range(rng.randint(3, length)):
        rand_entry(rng, s, True)
        if rng.random() < 0.15: s.raw("G", ["digest"])
    s.raw("G", ["digest"])
    return s

def memory_limit_log(rng, sid):
    """every node has the same memory limit (policy noeviction): a write is admitted or refused as a whole, on every node
    alike — multi-key writes (MSET) that reach the limit part-way included"""
    s = new_script(sid, "det")
    s.cfg["maxmem"] = rng.choice([200, 300, 450, 700])
    keys = ["k%d" % i for i in range(8)]
    for _ in range(rng.randint(3, 9)):
        r = rng.random()
        db = rng.choice([0, 0, 1])
        if r < 0.55:
            ks = rng.sample(keys, rng.randint(2, 6))
            argv = ["MSET"]
            for k in ks: argv += [k, rng.choice(["v", "12", "x" * rng.randint(1, 40)])]
            L(s, db, argv)
        elif r < 0.75: L(s, db, ["SET", rng.choice(keys), "y" * rng.randint(1, 60)])
        elif r < 0.85: L(s, db, ["DEL"] + rng.sample(keys, 2))
        elif r < 0.93: L(s, db, ["RPUSH", "l", "a", "b"])
        else: L(s, db, ["LMOVE", "l", "m", "LEFT", "RIGHT"])
        if rng.random() < 0.3: s.raw("G", ["digest"])
    s.raw("G", ["digest"])
    return s

def nondet_log(rng, sid, length):
    """no argument is repaired: randomised commands go into the log as they are (known finding); a command with a relative
    expiry is handed to the leader, which logs its absolute form: what still differs between nodes is a deadline that
    falls due on one node before another applies a later entry (known finding)"""
    s = new_script(sid, "nondet")
    for _ in range(rng.randint(3, length)):
        if rng.random() < 0.7:
            rand_entry(rng, s, False)
            continue
        argv = ascii_only(gen_mixed.rand_cmd(rng, inplace_ok=True)) if rng.random() < 0.5 else rand_rel_cmd(rng)
        if argv and argv[0].upper() in ("TTL", "PTTL"): argv = ["PERSIST", argv[1] if len(argv) > 1 else "a"]
        H(s, 0, rng.choice(DBS), argv)
    s.raw("G", ["digest"])
    return s

def snapshot_log(rng, sid, length, stale):
    s = new_script(sid, "stale" if stale else "snap")
    n = rng.randint(3, length)
    cut = rng.randint(1, n - 1)
    for i in range(n):
        if i == cut:
            s.raw("Z 0 %d" % WALL, ["snapshot", 0])
            if stale: s.raw("G", ["digest"])       # what the snapshot holds (node 0 at this instant)
            if not stale:
                if rng.random() < 0.5: s.raw("F 2", ["fresh", 2])
                s.raw("V 2 %d" % WALL, ["restore", 2])
                s.raw("G", ["digest"])
        rand_entry(rng, s, True)
    if stale:
        # an old snapshot is restored into a node that has moved on: the node must become the old state
        s.raw("V 1 %d" % WALL, ["restore", 1])
    s.raw("G", ["digest"])
    return s

def entry_line(rng, s, db=None):
    """one committed entry (never a clock advance): command / delete-key / flush"""
    r = rng.random()
    db = rng.choice(DBS) if db is None else db
    if r < 0.05:
        s.raw("K %d %s" % (db, hx(rng.choice(gen_mixed.KEYS))), ["deletekey", db])
    elif r < 0.2:
        L(s, db, [rng.choice(["FLUSHDB", "FLUSHALL", "FLUSHALL"])])
    else:
        L(s, db, make_det(rng, gen_mixed.rand_cmd(rng, inplace_ok=True)))

def batched_log(rng, sid, length):
    """the log is delivered in raft batches (node 0 entry by entry, the others through ApplyBatch when the state machine
    has one): log order must be kept whatever the databases of the entries"""
    s = new_script(sid, "batch")
    for _ in range(rng.randint(2, length)):
        k = rng.randint(2, 9)
        s.raw("BL %d" % k, ["batch", k])
        for _ in range(k):
            entry_line(rng, s)
        if rng.random() < 0.3: s.raw("G", ["digest"])
    s.raw("G", ["digest"])
    return s

VALUE_DEPENDENT = [["INCR", "n"], ["APPEND", "t", "ab"], ["RPUSH", "q", "x"], ["LPOP", "q"], ["DECR", "n"], ["INCRBY", "n", "5"],
                   ["SADD", "s", "m"], ["HINCRBY", "h", "f", "2"], ["ZINCRBY", "z", "1", "m"], ["SET", "fresh", "1"], ["DEL", "t"]]

def two_step_snapshot(rng, sid):
    """raft's sequence: FSM.Snapshot() after some entries, further entries applied, then Persist; a fresh node restores the
    snapshot and replays the entries after the snapshot's index: all nodes must agree"""
    s = new_script(sid, "snap2")
    db = rng.choice(DBS)
    for _ in range(rng.randint(1, 6)):
        L(s, db, rng.choice(VALUE_DEPENDENT))
    s.raw("ZB 0", ["snapshot-begin", 0])
    suffix = [rng.choice(VALUE_DEPENDENT) for _ in range(rng.randint(1, 6))]
    for argv in suffix:
        L(s, db, argv)
    s.raw("ZP %d" % WALL, ["snapshot-persist"])
    s.raw("F 2", ["fresh", 2]); s.raw("V 2 %d" % WALL, ["restore", 2])
    for argv in suffix:
        s.raw("LO 2 %d %s" % (db, " ".join(hx(a) for a in argv)), ["replay", 2, db] + argv)
    s.raw("G", ["digest"])
    return s

SYNC_WORDS = None
def sync_words():
    global SYNC_WORDS
    if SYNC_WORDS is None:
        txt = open(os.path.join(COQ, "Gen", "CmdTable.v")).read()
        SYNC_WORDS = {m.group(1).upper() for m in re.finditer(r'CmdRow "(\w+)" "" "\w+" \[[^\]]*\] true ', txt)}
    return SYNC_WORDS

def handle_log(rng, sid, length):
    fwd = rng.choice([0, 1])
    nodes = 2 if fwd else rng.choice([2, 3])
    leader = rng.randrange(nodes)
    s = new_script(sid, "handle", nodes=nodes, leader=leader, forward=fwd)
    for _ in range(rng.randint(3, length)):
        node = rng.randrange(nodes)
        db = rng.choice(DBS)
        if rng.random() < 0.2:
            s.raw("A %d %d" % (rng.randrange(nodes), rng.choice([1, 20, 1500, 5001])), ["advance"])
        argv = make_det_h(rng, rand_rel_cmd(rng) if rng.random() < 0.3 else gen_mixed.rand_cmd(rng, inplace_ok=True))
        s.raw("G", ["digest"])
        H(s, node, db, argv)
        s.raw("G", ["digest"])
        if fwd and node != leader:
            s.raw("M", ["gossip"])
    s.raw("G", ["digest"])
    return s

FWD_CMDS = [["RPUSH", "l", "x"], ["INCR", "n"], ["APPEND", "a", "z"], ["SADD", "s", "m"], ["RPUSH", "l", "y"], ["SET", "k", "v"], ["LPOP", "l"],
            ["INCRBY", "n", "5"], ["HSET", "h", "f", "1"], ["DEL", "k"]]

def forward_burst(rng, sid, nodes=2):
    """writes handed to a follower with ForwardCommand, several per gossip round (the same command in two databases, the
    same command twice, different commands), then the round(s), then the digests: every acknowledged write must reach the
    leader — and be applied — exactly once, in the database it was sent to"""
    leader = rng.randrange(nodes)
    s = new_script(sid, "fwd", nodes=nodes, leader=leader, forward=1)
    follower = rng.choice([i for i in range(nodes) if i != leader])
    for _ in range(rng.randint(1, 4)):
        burst = []
        for _ in range(rng.randint(1, 4)):
            r = rng.random()
            if burst and r < 0.35: db, argv = rng.choice([d for d in (0, 1, 3) if d != burst[-1][0]]), burst[-1][1]     # same bytes, other database
            elif burst and r < 0.45 and nodes > 2: db, argv = burst[-1]                                                 # same bytes, same database
            else: db, argv = rng.choice([0, 1, 3]), rng.choice(FWD_CMDS)
            # two nodes: the writes of one round name pairwise different (database, key) — a gossip round keeps neither the
            # order of the writes nor two writes with the same bytes apart (recorded finding), so only commuting writes are
            # judged strictly
            if nodes == 2 and any(d == db and a[1] == argv[1] for d, a in burst): continue
            burst.append((db, argv))
            H(s, follower, db, argv)
        for _ in range(1 if nodes == 2 else rng.randint(1, 3)):
            s.raw("M", ["gossip"])
        s.raw("G", ["digest"])
    return s

def fwd_reference(script):
    """the same writes handed to the leader itself (applied once each, at once); no gossip"""
    leader = int(script.cfg.get("leader", 0))
    r = Script(script.id + "_ref", dict(script.cfg))
    for l, e in zip(script.lines, script.events):
        f = l.split()
        if f[0] == "H": r.raw(" ".join(["H", str(leader)] + f[2:]), e)
        elif f[0] == "M": continue
        else: r.raw(l, e)
    return r

def fwd_verdict(script, impl_lines, ref_lines):
    """exactly once: at every digest taken when no forwarded write is waiting for a gossip round, the nodes hold what the
    leader holds when it is handed the same writes directly"""
    gi, gr = blocks(impl_lines, "G"), blocks(ref_lines, "G")
    if len(gi) != len(gr): return "digest blocks: implementation %d, reference %d" % (len(gi), len(gr))
    settled, pending = [], False
    for l in script.lines:
        f = l.split()
        if f[0] == "H": pending = True
        elif f[0] == "M": pending = False
        elif f[0] == "G": settled.append(not pending)
    for k, (a, b) in enumerate(zip(gi, gr)):
        if k < len(settled) and not settled[k]: continue
        if len(set(norm_g("G " + x, True) for x in a)) > 1:
            return "nodes hold different datasets after the gossip round: %s" % a
        if norm_g("G " + a[0], True, False) != norm_g("G " + b[0], True, False):
            return ("at digest %d (after the gossip round) the cluster holds %s; the acknowledged writes applied once each give %s"
                    % (k, a[0], b[0]))
    return None

def fwd_in_trigger(script):
    """three or more nodes, or two writes of one gossip round that name the same key of the same database"""
    if script.cfg.get("kind") != "fwd": return False
    if int(script.cfg.get("nodes", 2)) > 2: return True
    seen = set()
    for l in script.lines:
        f = l.split()
        if f[0] == "M": seen = set()
        elif f[0] == "H":
            key = (f[2], f[4] if len(f) > 4 else "")
            if key in seen: return True
            seen.add(key)
    return False

UNORDERED = PropertyCheck.UNORDERED | {"HGETALL"}

def norm_g(line, with_vol, with_mem=True):
    return norm_digest(line, with_mem=with_mem, with_vol=with_vol, round_floats=True)

# commands that change a stored set / sorted set through its pointer: the memory figure of a node that ran them is
# history-dependent (recorded finding KF-C19-inplace), a node restored from a snapshot accounts the dataset afresh
INPLACE = {"SADD", "SREM", "SPOP", "SMOVE", "ZADD", "ZINCRBY", "ZREM", "ZPOPMIN", "ZPOPMAX", "ZMPOP",
           "ZREMRANGEBYSCORE", "ZREMRANGEBYRANK", "ZREMRANGEBYLEX"}
def has_inplace(script):
    return any(argv_of(l) and argv_of(l)[0].upper() in INPLACE for l in script.lines if l.split()[0] in ("L", "H", "LO"))

def compare07(script, impl_lines, model_lines, reply_opts=None, digest_opts=None):
    """node-versus-model; None when equal"""
    kind = script.cfg.get("kind", "det")
    if kind == "nondet" and any(argv_of(l) and argv_of(l)[0].upper() in ("SPOP", "SRANDMEMBER") for l in script.lines if l[0] in "LH"):
        return None        # the model cannot know the implementation's random draws: oracle only
    with_vol = not any(l.startswith("V ") for l in script.lines)
    cmds = [l for l in script.lines if l.split()[0] in ("L", "K", "Y", "H", "Z", "V", "M", "G")]
    n = max(len(impl_lines), len(model_lines))
    ci = -1; last = None
    for i in range(n):
        a = impl_lines[i] if i < len(impl_lines) else "<missing>"
        b = model_lines[i] if i < len(model_lines) else "<missing>"
        if a == b: continue
        ta, tb = a.split(" ", 1), b.split(" ", 1)
        if ta[0] == tb[0] and len(ta) == 2 and len(tb) == 2:
            if ta[0][0] in "RH":
                x, y = norm_tree(parse_reply(ta[1]), parse_reply(tb[1]), unordered=True, pairs=False)
                if x == y: continue
                x, y = norm_tree(parse_reply(ta[1]), parse_reply(tb[1]), unordered=True, pairs=True)
                if x == y: continue
            if ta[0][0] == "G" and norm_g(a, with_vol, False) == norm_g(b, with_vol, False): continue
        return (i, a, b)
    return None

def blocks(lines, prefix):
    """consecutive runs of lines 'R0 ..','R1 ..' -> list of lists"""
    out, cur = [], []
    for l in lines:
        m = re.match(r"^%s(\d+) (.*)$" % prefix, l)
        if m:
            if int(m.group(1)) == 0 and cur: out.append(cur); cur = []
            cur.append(m.group(2))
        elif cur:
            out.append(cur); cur = []
    if cur: out.append(cur)
    return out

def oracle07(script, impl_lines):
    """the property's own judgement of an implementation trace; None = accepted"""
    kind = script.cfg.get("kind", "det")
    for l in impl_lines:
        if l in ("DIED",) or l.startswith("HUNG") or l == "<no output>":
            return "node process %s" % l
        if re.match(r"^X\d+ ", l): return "raft.Apply issued from a place where the real raft deadlocks: " + l
        if re.match(r"^P\d+ ", l): return "panic inside FSM.Apply: " + l
        if l in ("Z !", "Z -", "V !", "V -"): return "raft snapshot / restore failed: " + l
        if re.match(r"^R\d+ !$", l) or l == "H !": return "panic in the state machine: " + l
    leader = int(script.cfg.get("leader", 0))
    # database placement: only a database named by some entry of the log can hold keys
    used = set()
    for l in script.lines:
        f = l.split()
        if f[0] in ("L", "K"): used.add(int(f[1]))
        elif f[0] == "H": used.add(int(f[2]))
    for l in impl_lines:
        if re.match(r"^G\d+ ", l):
            for m in re.finditer(r" db(-?\d+)\{[0-9a-f]", l):
                if int(m.group(1)) not in used:
                    return "database %s holds keys although no entry of the log names it: %s" % (m.group(1), l)
    if kind in ("det", "nondet", "batch"):
        for b in blocks(impl_lines, "R"):
            if len(set(b)) > 1:
                # unordered replies may legitimately be printed in different orders
                t = [repr(norm_tree(parse_reply(x), parse_reply(x), unordered=True)[0]) for x in b]
                if len(set(t)) > 1: return "the same entry was answered differently on different nodes: %s" % b
    if kind in ("det", "nondet", "snap", "batch", "snap2"):
        gs = blocks(impl_lines, "G")
        with_vol = kind not in ("snap", "snap2")
        if gs:
            mem_ok = not (kind in ("snap", "snap2") and has_inplace(script))
            last = [norm_g("G " + g, with_vol, mem_ok) for g in gs[-1]]
            if len(set(last)) > 1:
                return "nodes hold different datasets after the same log: %s" % gs[-1]
        if kind not in ("snap", "snap2"):
            for g in gs:
                if len(set(norm_g("G " + x, True) for x in g)) > 1:
                    return "nodes hold different datasets after the same log prefix: %s" % g
    if kind == "stale":
        # an old snapshot of node 0 installed on node 1, which has moved on: node 1 must hold exactly what node 0 held when
        # the snapshot was taken (first digest of the script) — nothing it acquired since may survive
        gs = blocks(impl_lines, "G")
        if len(gs) >= 2 and len(gs[0]) > 0 and len(gs[-1]) > 1 and any(l.startswith("V 1 ") for l in script.lines) \
           and script.lines.index([l for l in script.lines if l.startswith("Z ")][0]) < script.lines.index("G") if any(l.startswith("Z ") for l in script.lines) and "G" in script.lines else False:
            if norm_g("G " + gs[-1][1], False, False) != norm_g("G " + gs[0][0], False, False):
                return ("node 1 restored the snapshot node 0 took at the first digest, yet holds %s instead of %s"
                        % (gs[-1][1], gs[0][0]))
    if kind == "handle":
        # a node that is not the leader never changes its own dataset for a replicated command
        gi = [i for i, l in enumerate(impl_lines) if l.startswith("G0 ")]
        nodes = int(script.cfg["nodes"])
        hs = [l for l in script.lines if l.startswith("H ")]
        hpos = [i for i, l in enumerate(impl_lines) if l.startswith("H ")]
        for hl, hp in zip(hs, hpos):
            f = hl.split(); node = int(f[1]); argv = argv_of(hl)
            if node == leader or not argv: continue
            before = impl_lines[hp - nodes + node] if hp - nodes + node >= 0 else None
            after = impl_lines[hp + 1 + node] if hp + 1 + node < len(impl_lines) else None
            if before and after and before.startswith("G%d " % node) and after.startswith("G%d " % node) \
               and norm_g(before, True) != norm_g(after, True):
                return "a node that is not the leader changed its own dataset for %s: %s -> %s" % (argv, before, after)
            rep = impl_lines[hp]
            if argv[0].upper() in sync_words() and script.cfg.get("forward") in (0, "0") and rep != "H -":
                return "a follower without ForwardCommand accepted %s: %s" % (argv, rep)
        gs = blocks(impl_lines, "G")
        if gs and len(set(norm_g("G " + x, True) for x in gs[-1])) > 1:
            return "nodes hold different datasets at quiescence: %s" % gs[-1]
    return None

class C07(PropertyCheck):
    prop = "C07"
    theorem_file = "Properties/C07.v"
    spec_mode = None
    level = "proof"
    design_ref = "DESIGN.md §8 C07, §9 D10 D34 D36"

    def __init__(self, tier, seed):
        super().__init__(tier, seed)
        for mod in (framework, sys.modules.get("replay")):
            if mod is not None:
                mod.run_impl = run_impl07
                mod.run_model = run_model07
                mod.compare_lines = compare07

    def per_script_timeout(self):
        return 1.0

    def streams(self):
        q = self.tier == "quick"
        rng = self.rng
        out = {
            "det_logs": [det_log(rng, "d%d" % i, 30) for i in range(160 if q else 1500)],
            "memory_limit": [memory_limit_log(rng, "m%d" % i) for i in range(40 if q else 500)],
            "nondet_logs": [nondet_log(rng, "n%d" % i, 20) for i in range(60 if q else 400)],
            "snapshot_then_suffix": [snapshot_log(rng, "s%d" % i, 24, False) for i in range(60 if q else 500)],
            "stale_snapshot": [snapshot_log(rng, "t%d" % i, 20, True) for i in range(30 if q else 200)],
            "batched": [batched_log(rng, "b%d" % i, 6) for i in range(60 if q else 600)],
            "two_step_snapshot": [two_step_snapshot(rng, "z%d" % i) for i in range(40 if q else 400)],
            "handle_command": [handle_log(rng, "h%d" % i, 10) for i in range(80 if q else 600)],
            "forward_burst": [forward_burst(rng, "f%d" % i, 2) for i in range(40 if q else 500)] +
                             [forward_burst(rng, "g%d" % i, 3) for i in range(8 if q else 60)],
        }
        return out

    def evaluate(self, scripts):
        impl = run_impl07(scripts, self.per_script_timeout())
        model = run_model07(scripts)
        refs = {s.id: fwd_reference(s) for s in scripts if s.cfg.get("kind") == "fwd"}
        refout = run_model07(list(refs.values())) if refs else {}
        div, rej = [], []
        for s in scripts:
            a = impl.get(s.id, ["<no output>"]); b = model.get(s.id, ["<no output>"])
            d = compare07(s, a, b)
            if d: div.append((s, d))
            r = oracle07(s, a)
            if not r and s.id in refs:
                r = fwd_verdict(s, a, refout.get(refs[s.id].id, ["<no output>"]))
            if r: rej.append((s, r))
        return impl, model, div, rej

    def oracle_report(self, c):
        im = run_impl07([c], self.per_script_timeout())
        v = oracle07(c, im.get(c.id, ["<no output>"]))
        if not v and c.cfg.get("kind") == "fwd":
            ref = fwd_reference(c)
            v = fwd_verdict(c, im.get(c.id, ["<no output>"]), run_model07([ref]).get(ref.id, ["<no output>"]))
        return {"impl_trace": im.get(c.id), "verdict": v} if v else None

    def in_known_trigger(self, script):
        if fwd_in_trigger(script):
            return "KF-C07-forwarding-not-exactly-once"
        if script.cfg.get("kind") != "nondet":
            return None
        rnd = clock = False
        for l in script.lines:
            if l[0] not in "LH": continue
            a = argv_of(l)
            if not (is_det(a) if l[0] == "L" else is_det_h(a)):
                if a[0].upper() in ("SPOP", "SRANDMEMBER"): rnd = True
                else: clock = True
        if rnd: return "KF-C07-commands-not-effects"
        if clock: return "KF-C07-deadline-passes-during-replication"
        return None

    def replay_known(self, kf):
        w = kf.get("witness", {})
        if "script" not in w:
            return True
        s = script_from_json(w["script"])
        im = run_impl07([s], 2.0)
        if s.cfg.get("kind") == "fwd":
            ref = fwd_reference(s)
            return bool(fwd_verdict(s, im.get(s.id, ["<no output>"]), run_model07([ref]).get(ref.id, ["<no output>"])))
        return bool(oracle07(s, im.get(s.id, ["<no output>"])))

    def nontrivial(self, script, impl_lines):
        return any(re.search(r"db\d+\{[0-9a-f]", l) for l in impl_lines)

    def corr_name(self, script, idx):
        return "corr:C07:fsm"

    def rule(self):
        return ("node-versus-node: after the same log every node's digest (all databases, deadlines, volatile index, memory figure) "
                "and every entry's response are equal; a non-leader's digest is unchanged by a replicated command it receives; "
                "no panic / re-entrant raft.Apply / hang inside the state machine; node-versus-model: every line equal")

    def assumptions(self):
        return ["hashicorp/raft: every node's FSM is fed a prefix of one common log, in order (hypothesis of the theorems; the harness "
                "feeds the same entries to every node; the thorough tier observes a real 3-node cluster)",
                "memberlist: a forwarded message reaches the leader's delegate (NotifyMsg) as sent; delivery count and order are not modelled",
                "determinism is proved below a horizon T: logs passing entry_det_b T, node clocks <= T (no deadline falls due during replication); "
                "the leader puts relative expiries into the log in their absolute form at its own clock, read once per entry; SPOP and "
                "deadlines crossed during replication are refuted witnesses / known findings",
                "functional extensionality (Coq.Logic.FunctionalExtensionality) is used, as in Proofs/ProgLemmas.v",
                "JSON carries the log entries: arguments that are not valid UTF-8 are excluded from generation (recorded finding)"]

    def run(self):
        rc = super().run()
        if self.tier == "thorough":
            rc = max(rc, self.cluster_tier())
        return rc

    # ---- (b) real cluster, thorough tier
    def cluster_tier(self):
        exe = os.path.join(BUILD, "cluster")
        if not os.path.exists(exe):
            return 0
        bad = 0
        results = []
        for sc, fwd in [("basic", "false"), ("basic", "true"), ("spop", "false"), ("relexpire", "false"),
                        ("follower_write", "false"), ("follower_write", "true"), ("lazy_expiry", "false"),
                        ("lazy_expiry_write", "false"), ("whoami", "false"), ("snapshot", "false")]:
            try:
                p = subprocess.run(["timeout", "-k", "5", "100", exe, "-scenario", sc, "-forward=" + fwd, "-seed", str(self.seed % 1000)],
                                   stdout=subprocess.PIPE, stderr=subprocess.PIPE, text=True, timeout=120)
                out = p.stdout
            except subprocess.TimeoutExpired as e:
                out = (e.stdout or b"").decode() if isinstance(e.stdout, bytes) else (e.stdout or "")
            obs = [json.loads(l) for l in out.splitlines() if l.startswith("{")]
            res = next((o for o in obs if o.get("obs") == "result"), None)
            verdict = None
            if res is None:
                verdict = "DIED or HUNG before a result (last observation: %s)" % (obs[-1] if obs else None)
            elif any("HUNG" in str(r) for r in res.get("replies", [])) or "digest_hung" in str(res.get("digests")):
                verdict = "a command or a digest hung: %s" % res.get("replies")
            elif sc in ("basic", "lazy_expiry_write", "snapshot", "whoami") and not res.get("equal_ignoring_empty_dbs", res.get("equal_exact")):
                verdict = "nodes differ at quiescence"
            elif sc == "follower_write" and fwd == "true" and not res.get("equal_ignoring_empty_dbs", res.get("equal_exact")):
                verdict = "nodes differ after forwarded writes"
            elif any(o.get("obs") == "read_after_ack_mismatch" for o in obs):
                verdict = "read after acknowledgement did not observe the write"
            results.append({"scenario": sc, "forward": fwd, "verdict": verdict or "ok",
                            "equal_exact": res and res.get("equal_exact"), "equal_modulo_deadlines": res and res.get("equal_modulo_deadlines")})
            if verdict and sc not in ("spop", "relexpire"):
                path = write_replay("C07", "cluster_%s_%s" % (sc, fwd), {"property": "C07", "kind": "real 3-node cluster", "scenario": sc,
                                    "forward": fwd, "verdict": verdict, "observations": obs[-6:], "replay_cmd": "%s -scenario %s -forward=%s" % (exe, sc, fwd)})
                print("VIOLATION property=C07 replay=%s" % path)
                bad = 1
        p = os.path.join(VERIF, "evidence", "C07.json")
        try:
            ev = json.load(open(p)); ev["coverage"]["cluster_scenarios"] = results
            if bad: ev["violations"] = ev.get("violations", 0) + 1
            json.dump(ev, open(p, "w"), indent=1, sort_keys=True)
        except Exception:
            pass
        return bad
