"""C14 — hash commands implement a field-to-value map."""
import re
from common import *
import framework
from framework import *
import gen_hash

UNORDERED = {"HGETALL": True, "HKEYS": False, "HVALS": False}   # command -> replies are field/value pairs

def _tree_text(t):
    if isinstance(t, tuple):
        return "[" + " ".join(_tree_text(x) for x in t[1]) + "]"
    return t

def _tok_eq(impl, model):
    if impl == model:
        return True
    x, y = norm_scalar_reply(impl, model)
    return x == y

def align(impl_line, model_line, pairs):
    """The implementation produced the array by ranging over a Go map: reorder it into the model's (sorted) order when
    the two hold the same items (floats compared as numbers); otherwise leave it alone."""
    if not (impl_line.startswith("R [") and model_line.startswith("R [")):
        return impl_line
    a, b = parse_reply(impl_line[2:]), parse_reply(model_line[2:])
    if not (isinstance(a, tuple) and isinstance(b, tuple) and a[0] == b[0] == "arr" and len(a[1]) == len(b[1])):
        return impl_line
    xs, ys = list(a[1]), list(b[1])
    if any(isinstance(t, tuple) for t in xs + ys):
        return impl_line
    step = 2 if pairs else 1
    if len(xs) % step:
        return impl_line
    xi = [tuple(xs[i:i + step]) for i in range(0, len(xs), step)]
    yi = [tuple(ys[i:i + step]) for i in range(0, len(ys), step)]
    used, out = [False] * len(xi), [None] * len(yi)
    for exact in (True, False):
        for j, y in enumerate(yi):
            if out[j] is not None:
                continue
            for i, x in enumerate(xi):
                if used[i]:
                    continue
                if (x == y) if exact else all(_tok_eq(p, q) for p, q in zip(x, y)):
                    used[i], out[j] = True, x
                    break
    if any(o is None for o in out):
        return impl_line
    return "R [" + " ".join(t for o in out for t in o) + "]"

def _shape(line):
    if line.startswith("R ["):
        t = parse_reply(line[2:])
        if isinstance(t, tuple) and t[0] == "arr":
            return ("arr", len(t[1]))
    return line

def prepare(script, impl_lines, model_lines):
    """HRANDFIELD answers at random: for the model/implementation comparison only the shape of its reply counts (error, or
    an array of the same length); whether the selection is allowed is judged by the reference (spec14).  HGETALL/HKEYS/
    HVALS are brought into the model's order."""
    cmds = [e for e in script.events if e[0] in ("cmd", "digest", "sweep", "rawcmd")]
    out = list(impl_lines)
    for i, e in enumerate(cmds):
        if e[0] != "cmd" or i >= len(out) or i >= len(model_lines):
            continue
        u = str(e[2]).upper()
        if u == "HRANDFIELD":
            if _shape(out[i]) == _shape(model_lines[i]) and out[i].startswith("R ["):
                out[i] = model_lines[i]
        elif u in UNORDERED:
            out[i] = align(out[i], model_lines[i], UNORDERED[u])
    return out

_orig_compare = framework.compare_lines
def _compare(script, impl_lines, model_lines, reply_opts=None, digest_opts=None):
    return _orig_compare(script, prepare(script, impl_lines, model_lines), model_lines, reply_opts, digest_opts)
framework.compare_lines = _compare

def hint_of(impl_line):
    if impl_line == "R -":
        return "E"
    if impl_line.startswith("R ["):
        t = parse_reply(impl_line[2:])
        if isinstance(t, tuple) and t[0] == "arr" and all(isinstance(x, str) and x[:1] in "$:_" for x in t[1]):
            return " ".join(["A"] + t[1])
    return "X"

class C14(PropertyCheck):
    prop = "C14"
    theorem_file = "Properties/C14.v"
    spec_mode = "spec14"

    def streams(self):
        q = self.tier == "quick"
        rng = self.rng
        return {
            "exhaustive": gen_hash.exhaustive(1 if q else 2, "x"),
            "random": gen_hash.random_scripts(rng, 1500 if q else 30000, 30, False, "r"),
            "malformed": gen_hash.random_scripts(rng, 600 if q else 10000, 12, True, "m"),
            "incremented-then-read": self.incremented(),
        }

    def incremented(self):
        """a field written by HINCRBY / HINCRBYFLOAT (which store numbers without going through the typing of written
        strings) and then read by every reader: very small and very large magnitudes included"""
        out = []
        incs = ["0.00001", "-0.00002", "0.0001", "1000000000000000000000", "0.5", "3", "-0.125", "100.75"]
        starts = [None, "1", "0.5", "7"]
        n = 0
        for inc in incs:
            for st in starts:
                if st is not None and len(inc) > 15:
                    continue          # the sum must be exact in binary64 (the model computes with exact rationals)
                s = Script("inc%d" % n, {}); n += 1
                if st is not None:
                    s.cmd(0, "HSET", "k", "f", st)
                s.cmd(0, "HINCRBYFLOAT", "k", "f", inc)
                for argv in (["HGET", "k", "f"], ["HSTRLEN", "k", "f"], ["HVALS", "k"], ["HGETALL", "k"], ["HMGET", "k", "f", "nope"],
                             ["HINCRBYFLOAT", "k", "f", "0"], ["HSTRLEN", "k", "f", "nope"]):
                    s.cmd(0, *argv)
                s.digest()
                out.append(s)
        return out

    def exhaustive_note(self):
        d = 1 if self.tier == "quick" else 2
        return "every command sequence of length <= %d over a %d-command alphabet x %d preset datasets" % (
            d, len(gen_hash.alphabet()), len(gen_hash.PRESETS))

    def rule(self):
        return ("scripts = preset dataset (hashes with string/int/float fields, other types, emptied hashes, passed deadlines) + "
                "hash commands + final HGETALL/HLEN reads + digest; three streams: exhaustive small scope over boundary arguments, "
                "random histories over 3 keys and 6 fields, malformed (wrong arity, non-numbers, unknown modifier). "
                "distinct = distinct canonical script text; non-trivial = at least one successful hash write")

    def nontrivial(self, script, impl_lines):
        writes = ("HSET", "HSETNX", "HINCRBY", "HINCRBYFLOAT", "HDEL")
        cmds = [e for e in script.events if e[0] in ("cmd", "digest")]
        for e, l in zip(cmds, impl_lines):
            if e[0] == "cmd" and str(e[2]).upper() in writes and l.startswith("R ") and l not in ("R -", "R !"):
                return True
        return False

    def _split(self, script):
        outs = [(l, e) for l, e in zip(script.lines, script.events) if e[0] in ("cmd", "digest", "sweep")]
        for i, (l, e) in enumerate(outs):
            if e[0] == "digest":
                return i, [(l, e) for l, e in outs[i + 1:] if e[0] == "cmd"], outs
        return None, [], outs

    def spec_script(self, script, impl_lines):
        """Initial view = the implementation's digest after the setup phase; then the hash commands, HRANDFIELD with the
        implementation's reply as hint."""
        i0, cmds, outs = self._split(script)
        if i0 is None or len(impl_lines) <= i0 or not impl_lines[i0].startswith("G "):
            return None
        dg = parse_digest(impl_lines[i0])
        sp = Script(script.id + "_spec")
        now = int(script.cfg.get("now", DEFAULT_NOW))
        for k, (v, dl) in dg["dbs"].get(0, {}).items():
            if dl != 0 and dl < now:
                continue
            sp.raw("V %s %s" % (k, v))
        replies = impl_lines[i0 + 1:]
        for j, (line, ev) in enumerate(cmds):
            if str(ev[2]).upper() == "HRANDFIELD":
                r = replies[j] if j < len(replies) else "<missing>"
                sp.raw("H" + line[1:] + " | " + hint_of(r), ev)
            else:
                sp.raw(line, ev)
        return sp

    def spec_compare(self, script, impl_lines, spec_lines):
        i0, cmds, outs = self._split(script)
        if i0 is None:
            return None
        a = [l for l, (_, e) in zip(impl_lines[i0 + 1:], outs[i0 + 1:]) if e[0] == "cmd"]
        if len(impl_lines) < len(outs):
            a = [l for l in impl_lines[i0 + 1:] if not l.startswith("G ")]
        for i in range(max(len(a), len(spec_lines))):
            x = a[i] if i < len(a) else "<missing>"
            y = spec_lines[i] if i < len(spec_lines) else "<missing>"
            u = str(cmds[i][1][2]).upper() if i < len(cmds) else ""
            if u == "HRANDFIELD":
                if y == "R =":
                    continue
                return {"index": i, "command": cmds[i][1][2:], "impl": x, "reference": y,
                        "why": "not an allowed HRANDFIELD outcome (size / subset / distinctness / values), or an error where none is due"}
            if x == y:
                continue
            if x.startswith("R ") and y.startswith("R "):
                if u in UNORDERED:
                    x = align(x, y, UNORDERED[u])
                p, q = norm_tree(parse_reply(x[2:]), parse_reply(y[2:]))
                if p == q:
                    continue
            return {"index": i, "command": cmds[i][1][2:] if i < len(cmds) else None, "impl": x, "reference": y}
        return None

    def assumptions(self):
        return ["no memory limit configured (st_maxmem = 0): refusals at the limit belong to C08",
                "no clock advance inside a C14 script (expiry transparency is C04); keys may carry deadlines",
                "field values are tokens on which AdaptValue is modelled exactly (Adapt.simple_token, plus '1.50' and '+Inf'); "
                "float increments are short dyadic decimals without exponent; 'nan', '-0' and inf + -inf are not generated",
                "the reference adopts, where statement and docs are silent: HSET/HSETNX on a key of another type replace it; HSET replies "
                "the size of the resulting hash; HSETNX replies the number of fields it created and a field given twice takes its last "
                "value; integer-valued fields are replied as RESP integers, other values as bulk strings; HGET/HMGET/HSTRLEN on an "
                "absent key reply nil; HRANDFIELD without a count replies an array of one field; a hash emptied by HDEL stays as an "
                "empty hash; HINCRBY on a float field gives a float; numeric-looking strings that AdaptValue keeps as strings "
                "(007, 1.50, +5) are not numbers for HINCRBY(FLOAT); HINCRBY past int64 is refused"]

if __name__ == "__main__":
    pass
