"""Shared flow of the two log checks (C02, C09): implementation = harness/crash (data directories, crash
images, restarts, rewrites), model = runner mode `aof`, reference = runner mode `spec02`."""
import glob, os, re, shutil
import common, framework
from common import *
from framework import *

SCRATCH = os.environ.get("VERIF_SCRATCH", os.path.join("/var/tmp", "ag-aof"))

def aof_run_impl(scripts, per_script_timeout=0.5):
    os.makedirs(SCRATCH, exist_ok=True)
    tag = "data-%d-" % os.getpid()
    for s in scripts:
        s.cfg["root"] = os.path.join(SCRATCH, tag + s.id)
    try:
        return run_parallel([os.path.join(BUILD, "crash")], scripts, max(3.0, per_script_timeout))
    finally:
        for d in glob.glob(os.path.join(SCRATCH, tag + "*")):
            shutil.rmtree(d, ignore_errors=True)

def aof_run_model(scripts, mode="model"):
    return common.run_model(scripts, "aof" if mode == "model" else mode)

def _norm_line(l):
    if l[:2] in ("G ", "I ", "T "):
        return norm_digest(l, with_mem=False, with_vol=False)
    return l

def aof_compare(script, impl_lines, model_lines, reply_opts=None, digest_opts=None):
    """None when equal, else (index, impl, model).  The torn-preamble images ("IP <offset> <digest>",
    as many as the harness sampled) must all equal the model's single "IP * <digest>"."""
    if any(l.startswith("RWC ") for l in script.lines):
        return None          # schedules are judged by the reference only (the model has no threads)
    ipm = [l for l in model_lines if l.startswith("IP ")]
    want = {norm_digest(l.split(" ", 2)[2], with_mem=False, with_vol=False) for l in ipm}
    a = []
    for l in impl_lines:
        if l.startswith("IP "):
            got = norm_digest(l.split(" ", 2)[2], with_mem=False, with_vol=False)
            if want and got not in want:
                return (len(a), l, ipm[0])
        else:
            a.append(l)
    b = [l for l in model_lines if not l.startswith("IP ")]
    # the command each reply line answers (SMEMBERS & co. range over a Go map: their items come in any order)
    argvs = []
    for l in script.lines:
        f = l.split()
        if f[0] == "C":
            argvs.append([unhex(w).decode("latin-1") for w in f[2:]])
        elif f[0] in ("RW", "RWK"):
            argvs.append(["REWRITEAOF"])
        elif f[0] == "WW":
            n1 = int(f[3])
            argvs.append([unhex(w).decode("latin-1") for w in f[4:4 + n1]])
            argvs.append([unhex(w).decode("latin-1") for w in f[5 + n1:]])
    nrep = 0
    for i in range(max(len(a), len(b))):
        x = a[i] if i < len(a) else "<missing>"
        y = b[i] if i < len(b) else "<missing>"
        is_reply = x.startswith("R ")
        k = nrep
        if is_reply:
            nrep += 1
        if x == y or _norm_line(x) == _norm_line(y):
            continue
        if is_reply and y.startswith("R "):
            opts = reply_opts(argvs[k]) if (reply_opts and k < len(argvs)) else {}
            p, q = norm_tree(parse_reply(x[2:]), parse_reply(y[2:]), **opts)
            if p == q:
                continue
        return (i, x, y)
    return None

def install():
    framework.run_impl = aof_run_impl
    framework.run_model = aof_run_model
    framework.compare_lines = aof_compare

def view_hex(digest_text):
    return hx(norm_digest(digest_text, with_mem=False, with_vol=False))

class AofCheck(PropertyCheck):
    spec_mode = "spec02"
    unjudged_rewrite_points = ()
    def per_script_timeout(self):
        return 3.0
    def corr_name(self, script, idx):
        return "corr:%s:aof-trace" % self.prop
    def nontrivial(self, script, impl_lines):
        return any(l.startswith("L ") and l != "L -" for l in impl_lines)

    def spec_script(self, script, impl_lines):
        """The script's D/C/A lines plus one V/O line per observation of the implementation."""
        if any(l.split()[0] in ("X", "DEC") for l in script.lines):
            return None
        sp = Script(script.id + "_spec", {k: v for k, v in script.cfg.items() if k == "now"})
        sp.bad = None
        i = 0
        def peek():
            return impl_lines[i] if i < len(impl_lines) else "<end>"
        after_open, cut = False, False
        for line in script.lines:
            k = line.split()[0]
            if sp.bad:
                break
            if k in ("D", "A"):
                if peek().startswith("D "):
                    i += 1
                sp.raw(line)
            elif k == "C" or k == "RW":
                after_open = False
                if k == "C":
                    sp.raw(line)
                if not peek().startswith("R "):
                    sp.bad = "expected a reply, got %r" % peek(); break
                i += 1
                while peek().startswith("I ") or peek().startswith("IP "):
                    label = peek().split(" ", 2)[1] if peek().startswith("I ") else "pre.create.torn_write"
                    if not (k == "RW" and label in self.unjudged_rewrite_points):
                        sp.raw("V %s %s" % ("a" if k == "C" else "b", view_hex(peek().split(" ", 2)[2])))
                    i += 1
                if not peek().startswith("L "):
                    sp.bad = "expected the log bytes, got %r" % peek(); break
                i += 2
            elif k == "LT":
                pass
            elif k == "WW":
                f = line.split()
                after_open = False
                if not peek().startswith("SCHED "):
                    sp.bad = "expected a schedule report, got %r" % peek(); break
                if peek() != "SCHED ww parked blocked":
                    sp.bad = ("a second write command ran while the first was parked between its handler and its log record "
                              "(%s): the log order is no longer the order of execution" % peek()); break
                i += 1
                n1 = int(f[3])
                sp.raw("C %s %s" % (f[2], " ".join(f[4:4 + n1])))
                sp.raw("C %s %s" % (f[4 + n1], " ".join(f[5 + n1:])))
                for _ in range(2):
                    if not peek().startswith("R "):
                        sp.bad = "expected a reply, got %r" % peek(); break
                    i += 1
                if sp.bad: break
                if not peek().startswith("L "):
                    sp.bad = "expected the log bytes, got %r" % peek(); break
                i += 2
            elif k == "RWK":
                # a REWRITEAOF that dies at a failpoint: no write, the reply is the death
                after_open = False
                if not peek().startswith("R "):
                    sp.bad = "expected a reply, got %r" % peek(); break
                i += 1
            elif k == "RWC":
                f = line.split()
                after_open = False
                if not peek().startswith("SCHED "):
                    sp.bad = "expected a schedule report, got %r" % peek(); break
                i += 1
                sp.raw("C %s %s" % (f[1], " ".join(f[5:])))
                if peek().startswith("I mid "):
                    if f[4] not in self.unjudged_rewrite_points:
                        sp.raw("V a %s" % view_hex(peek().split(" ", 2)[2]))
                    i += 1
                if peek() == "HUNG":
                    sp.bad = "writer and rewrite did not both finish (HUNG)"; break
                if not (peek().startswith("R ") and i + 1 < len(impl_lines) and impl_lines[i + 1].startswith("RR ")):
                    sp.bad = "expected the two replies, got %r" % peek(); break
                i += 2
            elif k == "TORN":
                while peek().startswith("T "):
                    sp.raw("V a %s" % view_hex(peek().split(" ", 2)[2])); i += 1
            elif k == "O":
                if peek() != "O ok":
                    sp.bad = "restart failed: %r" % peek(); break
                i += 1
                after_open = True
            elif k == "G":
                if not peek().startswith("G "):
                    sp.bad = "expected a digest, got %r" % peek(); break
                if after_open:
                    sp.raw("O %s %s" % ("c" if cut else "b", view_hex(peek()[2:])))
                    after_open, cut = False, False
                else:
                    sp.raw("V b %s" % view_hex(peek()[2:]))
                i += 1
            elif k == "IMG":
                if not peek().startswith("I "):
                    sp.bad = "expected an image, got %r" % peek(); break
                sp.raw("V b %s" % view_hex(peek().split(" ", 2)[2])); i += 1
            elif k == "CUT":
                cut = True
        if not sp.bad and i < len(impl_lines):
            sp.bad = "unexpected output %r" % impl_lines[i]
        return sp

    def spec_compare(self, script, impl_lines, spec_lines):
        for l in impl_lines:
            if l in ("DIED", "HUNG"):
                return "the server process %s" % l
        if any(l.startswith("BAD ") or l == "G down" for l in impl_lines):
            return None      # a script that talks to a server it has not started (shrinking artefact): nothing to judge
        # re-derive alignment problems (spec_script is deterministic)
        sp = self.spec_script(script, impl_lines)
        if sp is not None and sp.bad:
            return "implementation trace: " + sp.bad
        for l in spec_lines:
            if "REJECT" in l or l.startswith("BAD") or l == "<no output>":
                return l[:600]
        return None
