"""Generators for sorted-set scripts (C17)."""
import itertools, random
from common import *

KEYS = ["a", "b", "c"]
MEMBERS = ["x", "y", "ab", "b", "", "x\r\n\x00\xff", "10", "B", "%d"]
# scores as command tokens: small integers, dyadic fractions, infinities, different spellings of one number
SCORES = ["0", "1", "2", "3", "-1", "1.5", "-0.25", "2.0", "+3", "007", "0.5", "-inf", "+inf", "inf", "-Inf", "+INF"]
FINITE = ["0", "1", "2", "3", "-1", "1.5", "-0.25", "0.5", "4"]
BADSCORE = ["zz", "", "1..2", "(1", "--1", "one"]
BADINT = ["zz", "", "1.5", " 1", "9223372036854775808"]
INTS = ["-3", "-2", "-1", "0", "1", "2", "3", "5"]
# canonical score text of presets
PS = {"0": "0/1", "1": "1/1", "2": "2/1", "3": "3/1", "-1": "-1/1", "1.5": "3/2", "-0.25": "-1/4", "0.5": "1/2",
      "-inf": "-inf", "inf": "inf", "4": "4/1"}

SINGLE = ["ZADD", "ZCARD", "ZSCORE", "ZMSCORE", "ZREM", "ZINCRBY", "ZCOUNT", "ZRANK", "ZREVRANK", "ZPOPMIN", "ZPOPMAX",
          "ZRANGE", "ZRANGESTORE", "ZLEXCOUNT", "ZREMRANGEBYSCORE", "ZREMRANGEBYLEX", "ZREMRANGEBYRANK"]
MULTI = ["ZMPOP", "ZDIFF", "ZDIFFSTORE", "ZINTER", "ZINTERSTORE", "ZUNION", "ZUNIONSTORE"]
MODELLED = SINGLE + MULTI
REF_ONLY = ["ZRANDMEMBER"]      # randomised: model comparison up to the draw (common.RANDOM_WORDS), drawn members judged by the reference

def zs(d):
    return vzset({k: PS[v] for k, v in d.items()})

PRESETS = [
    [],
    [("a", zs({"x": "1", "y": "1", "ab": "1", "b": "1"}))],                       # all tied: order by member bytes
    [("a", zs({"x": "2", "y": "1", "ab": "1.5", "b": "-0.25", "": "1"}))],
    [("a", zs({"x": "-inf", "y": "inf", "b": "0", "ab": "0"}))],
    [("a", zs({"x": "1", "y": "2"})), ("b", zs({"y": "3", "b": "1"}))],
    [("a", vstr("str"))],
    [("a", zs({}))],                                                                # emptied sorted set
    [("a", vlist(["x"])), ("b", zs({"x": "1", "y": "1"}))],
]

def alphabet(k="a"):
    c = []
    c += [("ZADD", k, "1", "x"), ("ZADD", k, "2", "x", "1", "n"), ("ZADD", k, "NX", "5", "x", "1", "n"),
          ("ZADD", k, "XX", "5", "x", "1", "n"), ("ZADD", k, "XX", "CH", "5", "x", "1", "y"), ("ZADD", k, "GT", "0", "x", "3", "y"),
          ("ZADD", k, "LT", "CH", "0", "x", "3", "y"), ("ZADD", k, "GT", "CH", "1", "x"), ("ZADD", k, "INCR", "1.5", "x"),
          ("ZADD", k, "XX", "INCR", "1", "n"), ("ZADD", k, "NX", "INCR", "1", "x"), ("ZADD", k, "GT", "INCR", "-1", "x"),
          ("ZADD", k, "INCR", "1", "x", "2", "y"), ("ZADD", k, "NX", "GT", "1", "x"), ("ZADD", k, "-inf", "x", "+inf", "n"),
          ("ZADD", k, "1", "x", "zz", "y"), ("ZADD", k, "CH", "1", "x", "1", "x"), ("ZADD", k, "nx", "ch", "2", "x")]
    c += [("ZCARD", k), ("ZSCORE", k, "x"), ("ZSCORE", k, "n"), ("ZMSCORE", k, "x", "n", "y"),
          ("ZREM", k, "x"), ("ZREM", k, "x", "x", "n", "y"), ("ZINCRBY", k, "1.5", "x"), ("ZINCRBY", k, "-1", "n"),
          ("ZINCRBY", k, "+inf", "b"), ("ZINCRBY", k, "zz", "x")]
    c += [("ZCOUNT", k, lo, hi) for lo, hi in (("-inf", "+inf"), ("1", "1"), ("1", "2"), ("2", "1"), ("-0.25", "1.5"), ("+inf", "-inf"), ("zz", "1"))]
    c += [("ZRANK", k, m) for m in ("x", "ab", "n")] + [("ZREVRANK", k, "ab", "WITHSCORES"), ("ZRANK", k, "y", "withscores"),
          ("ZRANK", k, "y", "junk")]
    c += [("ZPOPMIN", k), ("ZPOPMAX", k), ("ZPOPMIN", k, "2"), ("ZPOPMAX", k, "3"), ("ZPOPMIN", k, "0"), ("ZPOPMAX", k, "-1"), ("ZPOPMIN", k, "9")]
    for lo, hi in (("-inf", "+inf"), ("1", "1"), ("0", "1.5"), ("2", "0")):
        c += [("ZRANGE", k, lo, hi), ("ZRANGE", k, lo, hi, "BYSCORE", "REV", "WITHSCORES")]
    c += [("ZRANGE", k, "a", "x", "BYLEX"), ("ZRANGE", k, "", "y", "bylex", "REV"), ("ZRANGE", k, "b", "ab", "BYLEX"),
          ("ZRANGE", k, "zz", "1"), ("ZRANGE", k, "1", "2", "JUNK")]
    c += [("ZRANGE", k, "-inf", "+inf", "LIMIT", o, n) for o, n in (("0", "1"), ("1", "2"), ("2", "-1"), ("0", "0"), ("9", "1"))]
    c += [("ZRANGE", k, "1", "2", "LIMIT", "0", "5", "REV"), ("ZRANGE", k, "a", "y", "BYLEX", "LIMIT", "1", "1"),
          ("ZRANGE", k, "1", "2", "LIMIT", "-1", "2"), ("ZRANGE", k, "1", "2", "LIMIT", "1")]
    c += [("ZRANGESTORE", "b", k, "-inf", "+inf"), ("ZRANGESTORE", "b", k, "1", "1.5", "REV"), ("ZRANGESTORE", k, k, "1", "1"),
          ("ZRANGESTORE", "b", k, "a", "x", "BYLEX"), ("ZRANGESTORE", "b", k, "-inf", "+inf", "LIMIT", "1", "1"),
          ("ZRANGESTORE", "b", k, "5", "6")]
    c += [("ZLEXCOUNT", k, "a", "x"), ("ZLEXCOUNT", k, "", "\xff"), ("ZLEXCOUNT", k, "b", "ab")]
    c += [("ZREMRANGEBYSCORE", k, "1", "1"), ("ZREMRANGEBYSCORE", k, "-inf", "1.5"), ("ZREMRANGEBYSCORE", k, "2", "1")]
    c += [("ZREMRANGEBYLEX", k, "ab", "x"), ("ZREMRANGEBYLEX", k, "y", "a")]
    c += [("ZREMRANGEBYRANK", k, s, e) for s, e in (("0", "0"), ("0", "-1"), ("-2", "-1"), ("1", "0"), ("0", "9"), ("-9", "0"))]
    return c

def finish(s, keys):
    for k in keys:
        s.cmd(0, "ZRANGE", k, "-inf", "+inf", "WITHSCORES")
        s.cmd(0, "ZCARD", k)
    s.digest()
    return s

def exhaustive(depth, tag="x"):
    out, n = [], 0
    alpha = alphabet()
    for preset in PRESETS:
        for d in range(1, depth + 1):
            for seq in itertools.product(alpha, repeat=d):
                s = Script("%s%d" % (tag, n)); n += 1
                for k, v in preset:
                    s.preset(0, k, v)
                s.digest()
                s.setup_len = len(preset)
                for c in seq:
                    s.cmd(0, *c)
                finish(s, ["a", "b"])
                out.append(s)
    return out

def case_mix(rng, w):
    return rng.choice([w, w, w.lower(), w.capitalize()])

def rand_cmd(rng, malformed=False, multi=False, finite=False, rand=False):
    k = rng.choice(KEYS)
    m = lambda: rng.choice(MEMBERS)
    # the algebra commands add scores: with both infinities around, SUM would produce NaN (outside the model)
    scores = FINITE if finite else [x for x in SCORES if not x.lower().startswith("-inf")] if multi else SCORES
    sc = lambda: rng.choice(BADSCORE) if malformed and rng.random() < 0.25 else rng.choice(scores)
    it = lambda: rng.choice(BADINT) if malformed and rng.random() < 0.3 else rng.choice(INTS)
    names = (SINGLE + REF_ONLY * 8) if rand else (MULTI * 2 + SINGLE) if multi else (SINGLE + ["ZADD"] * 5 + ["ZRANGE"] * 3 + ["ZINCRBY", "ZPOPMIN", "ZPOPMAX", "ZREM"])
    u = rng.choice(names)
    c = case_mix(rng, u)
    if u == "ZADD":
        opts = []
        r = rng.random()
        if r < 0.2: opts.append("NX")
        elif r < 0.4: opts.append("XX")
        r = rng.random()
        if r < 0.15: opts.append("GT")
        elif r < 0.3: opts.append("LT")
        if rng.random() < 0.3: opts.append("CH")
        if rng.random() < 0.2: opts.append("INCR")
        if malformed and rng.random() < 0.2: opts.append("ZZ")
        rng.shuffle(opts)
        npairs = 1 if "INCR" in opts and rng.random() < 0.9 else rng.randint(1, 3)
        argv = [c, k] + [case_mix(rng, o) for o in opts]
        for _ in range(npairs):
            argv += [sc(), m()]
    elif u == "ZCARD": argv = [c, k]
    elif u == "ZSCORE": argv = [c, k, m()]
    elif u == "ZMSCORE": argv = [c, k] + [m() for _ in range(rng.randint(1, 3))]
    elif u == "ZREM": argv = [c, k] + [m() for _ in range(rng.randint(1, 3))]
    elif u == "ZINCRBY": argv = [c, k, sc(), m()]
    elif u in ("ZCOUNT", "ZREMRANGEBYSCORE"): argv = [c, k, sc(), sc()]
    elif u in ("ZRANK", "ZREVRANK"): argv = [c, k, m()] + (["WITHSCORES"] if rng.random() < 0.4 else [])
    elif u in ("ZPOPMIN", "ZPOPMAX"): argv = [c, k] + ([it()] if rng.random() < 0.5 else [])
    elif u in ("ZRANGE", "ZRANGESTORE"):
        bylex = rng.random() < 0.25
        argv = [c, k] if u == "ZRANGE" else [c, rng.choice(KEYS), k]
        argv += [m(), m()] if bylex else [sc(), sc()]
        opts = []
        if bylex: opts.append(["BYLEX"])
        elif rng.random() < 0.3: opts.append(["BYSCORE"])
        if rng.random() < 0.35: opts.append(["REV"])
        if rng.random() < 0.4: opts.append(["WITHSCORES"])
        if rng.random() < 0.3: opts.append(["LIMIT", it(), it()])
        rng.shuffle(opts)
        for o in opts: argv += [case_mix(rng, w) if not w.lstrip("-").isdigit() else w for w in o]
    elif u in ("ZLEXCOUNT", "ZREMRANGEBYLEX"): argv = [c, k, m(), m()]
    elif u == "ZREMRANGEBYRANK": argv = [c, k, it(), it()]
    elif u == "ZMPOP":
        argv = [c] + [rng.choice(KEYS) for _ in range(rng.randint(1, 3))]
        if rng.random() < 0.7: argv.append(rng.choice(["MIN", "MAX", "min", "Max"]))
        if rng.random() < 0.5: argv += ["COUNT", it()]
    elif u in ("ZDIFF", "ZDIFFSTORE"):
        argv = [c] + ([rng.choice(KEYS)] if u == "ZDIFFSTORE" else []) + [rng.choice(KEYS) for _ in range(rng.randint(1, 3))]
        if u == "ZDIFF" and rng.random() < 0.5: argv.append("WITHSCORES")
    elif u in ("ZINTER", "ZINTERSTORE", "ZUNION", "ZUNIONSTORE"):
        store = u.endswith("STORE")
        nk = rng.randint(1, 3)
        argv = [c] + ([rng.choice(KEYS + ["d"])] if store else []) + [rng.choice(KEYS) for _ in range(nk)]
        if rng.random() < 0.5:
            nw = nk if rng.random() < 0.9 else nk + 1
            argv += [case_mix(rng, "WEIGHTS")] + [rng.choice(["1", "2", "3", "0.5", "1.5"] if not finite else ["1", "2", "-1", "0", "0.5", "-2"]) for _ in range(nw)]
        if rng.random() < 0.5:
            argv += [case_mix(rng, "AGGREGATE")] + ([rng.choice(["SUM", "MIN", "MAX", "min", "Max"])] if rng.random() < 0.92 else ([] if rng.random() < 0.5 else ["AVG"]))
        if rng.random() < 0.5: argv.append("WITHSCORES")
    elif u == "ZRANDMEMBER":
        argv = [c, k]
        if rng.random() < 0.7:
            argv.append(it())
            if rng.random() < 0.5: argv.append("WITHSCORES")
    else:
        argv = [c, k]
    if malformed and rng.random() < 0.3:
        if rng.random() < 0.5 and len(argv) > 1: argv = argv[:-1]
        else: argv = argv + [m()]
    return argv

OTHER_VALUES = [vstr("v"), vint(12), vfloat(3, 2), vset(["m1", "m2"]), vhash({"f": vstr("v")}), vlist(["x", "y"])]

def rand_zset(rng, finite=False, noneg=False):
    d = {}
    pool = ["0", "1", "2", "3", "-1", "1.5", "-0.25", "0.5"] + ([] if finite else ["inf"] if noneg else ["-inf", "inf"])
    tie = rng.random() < 0.3
    t = rng.choice(pool)
    for _ in range(rng.randint(0, 6)):
        d[rng.choice(MEMBERS)] = t if tie else rng.choice(pool)
    return zs(d)

def rand_preset(rng, s, finite=False, noneg=False):
    n = 0
    now = 1700000000000
    for k in KEYS:
        r = rng.random()
        dl = rng.choice([0, 0, 0, now + 5000, now - 5])
        if r < 0.6:
            s.preset(0, k, rand_zset(rng, finite, noneg), dl); n += 1
        elif r < 0.75:
            s.preset(0, k, rng.choice(OTHER_VALUES), dl); n += 1
    if rng.random() < 0.2:
        s.preset(1, "a", zs({"other-db": "1"})); n += 1
    return n

def random_scripts(rng, count, length, malformed=False, tag="r", multi=False, finite=False, rand=False):
    out = []
    for n in range(count):
        s = Script("%s%d" % (tag, n))
        s.setup_len = rand_preset(rng, s, finite, multi)
        s.digest()
        for _ in range(rng.randint(1, length)):
            s.cmd(0, *rand_cmd(rng, malformed, multi, finite, rand))
        finish(s, KEYS + (["d"] if multi else []))
        s.ref_only = any(e[0] == "cmd" and str(e[2]).upper() in REF_ONLY for e in s.events)
        out.append(s)
    return out

def alias_scripts(tag="al"):
    """C13: a STORE result never shares structure with a source: write to one, re-read the other."""
    out, n = [], 0
    stores = [("ZRANGESTORE", "d", "a", "-inf", "+inf"), ("ZUNIONSTORE", "d", "a"), ("ZINTERSTORE", "d", "a"),
              ("ZDIFFSTORE", "d", "a"), ("ZUNIONSTORE", "d", "a", "b"), ("ZINTERSTORE", "d", "a", "a"), ("ZDIFFSTORE", "d", "a", "c")]
    writes = [("ZADD", "{}", "9", "new"), ("ZREM", "{}", "x"), ("ZINCRBY", "{}", "1", "x"), ("ZPOPMIN", "{}")]
    for st in stores:
        for w in writes:
            for target in ("d", "a"):
                s = Script("%s%d" % (tag, n)); n += 1
                s.preset(0, "a", zs({"x": "1", "y": "2"})); s.preset(0, "b", zs({"y": "3", "b": "1"}))
                s.digest(); s.setup_len = 2
                s.cmd(0, *st)
                s.cmd(0, *[a.format(target) for a in w])
                finish(s, ["a", "b", "d"])
                s.ref_only = False
                out.append(s)
    return out
