"""C10 - snapshots are crash-atomic.  Streams: corpus; exhaustive small scope (every sequence of <= 3 events over
write / advance / SAVE / crash-imaged snapshot / failed attempt / restart); random datasets over all value types,
databases and deadlines with 0-3 earlier snapshots, then a crash-imaged snapshot (image at every failpoint and
every torn offset of both writes, each restored by a fresh instance), same-millisecond and nothing-new attempts,
attempts made to fail at mkdir / state file / manifest."""
import itertools
from snapcheck import *

class C10(SnapCheck):
    prop = "C10"
    theorem_file = "Properties/C10.v"
    design_ref = "DESIGN.md §8 C10"
    check_c03 = True
    def streams(self):
        rng = self.rng
        quick = self.tier == "quick"
        now = framework.DEFAULT_NOW
        out = {"exhaustive": [], "crash": [], "same_ms": [], "nochange": [], "failed": []}
        alphabet = [("P", lambda s: s.preset(0, "a", vstr("x"), 0)),
                    ("P2", lambda s: s.preset(1, "\xffb", vlist(["y"]), now + 2)),
                    ("A", lambda s: s.advance(3)),
                    ("V", lambda s: s.digest().raw("V")),
                    ("K", lambda s: s.digest().raw("K")),
                    ("Fs", lambda s: s.digest().raw("F state")),
                    ("T", lambda s: s.raw("T").digest())]
        depth = 3
        n = 0
        for d in range(1, depth + 1):
            for seq in itertools.product(alphabet, repeat=d):
                names = [a for a, _ in seq]
                if "K" not in names and "Fs" not in names: continue
                s = Script("ex%d" % n, {}); n += 1
                for _, f in seq: f(s)
                s.raw("T").digest().cmd(0, "LASTSAVE")
                out["exhaustive"].append(s)
        for i in range(25 if quick else 600):
            s = Script("cr%d" % i, {})
            for _ in range(rng.randrange(0, 4)):      # earlier snapshots
                put_dataset(s, rng, now, rng.randrange(1, 4)); s.digest().raw("V"); s.advance(rng.choice([1, 2, 7]))
            put_dataset(s, rng, now)
            if rng.random() < 0.3: s.cmd(0, "DEL", rng.choice(["a", "b"]))
            s.digest().raw("K").advance(rng.choice([0, 1, 4, 60])).raw("T").digest().cmd(0, "LASTSAVE")
            out["crash"].append(s)
        for i in range(6 if quick else 100):
            s = Script("sm%d" % i, {})
            put_dataset(s, rng, now); s.digest().raw("K"); put_dataset(s, rng, now, 2); s.digest().raw("K").raw("T").digest()
            out["same_ms"].append(s)
        for i in range(6 if quick else 100):
            s = Script("nc%d" % i, {})
            put_dataset(s, rng, now); s.digest().raw("V").advance(rng.choice([0, 1, 3])).digest().raw("K").cmd(0, "LASTSAVE").raw("T").digest()
            out["nochange"].append(s)
        for i in range(12 if quick else 200):
            s = Script("fa%d" % i, {})
            if rng.random() < 0.8:
                put_dataset(s, rng, now, 3); s.digest().raw("V").advance(rng.choice([1, 5]))
            put_dataset(s, rng, now, 2)
            s.digest().raw("F " + rng.choice(["mkdir", "state", "manifest"])).cmd(0, "LASTSAVE").raw("T").digest()
            if rng.random() < 0.5:
                s.preset(0, "z", vint(1), 0).digest().raw("V").raw("T").digest()
            out["failed"].append(s)
        out["leftover"] = []
        for i in range(16 if quick else 200):
            # an earlier crash left temporary files behind; the next snapshots must not be disturbed by them
            s = Script("lo%d" % i, {})
            put_dataset(s, rng, now, rng.randrange(1, 4)); s.digest().raw("V").advance(rng.choice([1, 5]))
            s.raw("L %s %d" % (rng.choice(["manifest", "manifest", "state"]), rng.choice([300, 4096])), ["leftover"])
            put_dataset(s, rng, now, rng.randrange(1, 3))
            s.digest().raw(rng.choice(["V", "K"])).cmd(0, "LASTSAVE").raw("T").digest().cmd(0, "LASTSAVE")
            if i % 2:
                s.advance(2).preset(0, "z", vint(i), 0).digest().raw("V").raw("T").digest()
            out["leftover"].append(s)
        return out
    def rule(self):
        return ("every image of the data directory taken between the file-system operations of TakeSnapshot, and at every "
                "torn offset of the two writes, restores (fresh instance, RestoreSnapshot on) to the previous snapshot or the "
                "complete new one; failed / nothing-new attempts leave LASTSAVE and the restored dataset unchanged")
    def exhaustive_note(self):
        return "all sequences of <= 3 events over {preset db0, preset db1 with deadline, advance 3 ms, SAVE, crash-imaged snapshot, attempt failing at the state file, restart} that contain an attempt"
    def assumptions(self):
        return ["crash = process death between (or inside the write of) two file-system operations; rename / create / mkdir atomic",
                "quick tier samples torn offsets of a write (all when <= 64 bytes, else 32 at the ends + ~48 spread); thorough uses every offset"]
