"""C17 — sorted-set commands implement a scored, ordered member map (also the sorted-set half of C13)."""
import json, os, re
from common import *
from framework import *
import gen_zset

UNORDERED = ("ZPOPMIN", "ZPOPMAX", "ZMPOP", "ZUNION", "ZINTER", "ZDIFF", "ZRANDMEMBER")
KF_BY_COMMAND = {"ZADD": "C17-zadd-count", "ZRANGE": "C17-zrange-limit", "ZRANGESTORE": "C17-zrange-limit",
                 "ZMPOP": "C17-zmpop-wrongtype", "ZUNIONSTORE": "C17-zunionstore-dest"}

def float_leaf(x):
    """impl leaf '$hex' / '+hex' holding a float as text -> 'f<rat>'"""
    if isinstance(x, str) and x[:1] in "$+":
        fr = float_text_to_frac(unhex(x[1:]))
        if fr is not None:
            return "f" + frac_text(fr)
    return x

class C17(PropertyCheck):
    prop = "C17"
    theorem_file = "Properties/C17.v"
    spec_mode = "spec17"
    digest_opts = {"with_mem": False}      # in-place mutation in Go vs SetValues in the model (accounting is C19)

    def __init__(self, tier, seed):
        super().__init__(tier, seed)
        self._kf = {}

    def reply_opts(self, argv):
        return {"unordered": True} if argv and str(argv[0]).upper() in UNORDERED else {}

    def streams(self):
        q = self.tier == "quick"
        rng = self.rng
        return {
            "exhaustive": gen_zset.exhaustive(1 if q else 2, "x"),
            "random": gen_zset.random_scripts(rng, 500 if q else 8000, 30, False, "r"),
            "malformed": gen_zset.random_scripts(rng, 200 if q else 3000, 12, True, "m"),
            "multikey": gen_zset.random_scripts(rng, 300 if q else 5000, 20, False, "o", multi=True),
            "multikey_finite": gen_zset.random_scripts(rng, 150 if q else 2500, 16, False, "of", multi=True, finite=True),
            "multikey_malformed": gen_zset.random_scripts(rng, 100 if q else 1500, 10, True, "om", multi=True),
            "randmember": gen_zset.random_scripts(rng, 150 if q else 2500, 10, False, "rm", rand=True),
            "randmember_malformed": gen_zset.random_scripts(rng, 50 if q else 800, 8, True, "rmm", rand=True),
            "alias": gen_zset.alias_scripts("al"),
        }

    def exhaustive_note(self):
        d = 1 if self.tier == "quick" else 2
        return "every command sequence of length <= %d over a %d-command alphabet x %d preset datasets" % (
            d, len(gen_zset.alphabet()), len(gen_zset.PRESETS))

    def rule(self):
        return ("scripts = preset dataset (sorted sets with tied/fractional/infinite scores, other types, emptied sets, deadlines) "
                "+ sorted-set commands + final ZRANGE -inf +inf WITHSCORES / ZCARD per key + digest; streams: exhaustive small scope, "
                "random histories over 3 keys, malformed (arity, non-numbers, unknown options), multi-key streams (algebra with "
                "weights/aggregates, ZMPOP, and ZRANDMEMBER: compared with the model up to the random selection (shape of the reply, "
                "whole-set replies as multisets) and judged by the reference, which validates the drawn members), alias probes (STORE then write then re-read every source). "
                "distinct = distinct canonical script text; non-trivial = at least one successful sorted-set write")

    def nontrivial(self, script, impl_lines):
        writes = ("ZADD", "ZINCRBY", "ZREM", "ZPOPMIN", "ZPOPMAX", "ZMPOP", "ZRANGESTORE", "ZUNIONSTORE", "ZINTERSTORE",
                  "ZDIFFSTORE", "ZREMRANGEBYSCORE", "ZREMRANGEBYLEX", "ZREMRANGEBYRANK")
        cmds = [e for e in script.events if e[0] in ("cmd", "digest")]
        for e, l in zip(cmds, impl_lines):
            if e[0] == "cmd" and str(e[2]).upper() in writes and l.startswith("R ") and l not in ("R -", "R !", "R :0", "R []", "R _"):
                return True
        return False

    # ---- model/implementation comparison: only for scripts made of modelled commands
    def evaluate(self, scripts):
        # ZRANDMEMBER is modelled (Model/CmdZRand.v): scripts containing it are compared with the model like all others;
        # common.compare_lines keeps only the shape of a ZRANDMEMBER reply that is a random selection (the whole-set
        # replies are compared as multisets), and the reference below validates the drawn members.
        impl, model, div, rej = super().evaluate(scripts)
        # a trace rejected by the documented reading but accepted with the pinned behaviours adopted lies inside a known finding
        if rej:
            todo = []
            for s, r in rej:
                sp = self.spec_script(s, impl.get(s.id, []))
                if sp is not None:
                    todo.append((s, r, sp))
            out = run_model([sp for _, _, sp in todo], "spec17p")
            for s, r, sp in todo:
                if self.spec_compare(s, impl.get(s.id, []), out.get(sp.id, ["<no output>"])) is None:
                    self._kf[s.id] = self._classify(s, r)
        # what remains is rejected under both readings: minimise those scripts against the reading that adopts the pinned
        # behaviours, so that a shrunk script cannot collapse into a known finding
        if any(s.id not in self._kf for s, _ in rej):
            self.spec_mode = "spec17p"
        return impl, model, div, rej

    def _classify(self, script, r):
        """Which finding explains a trace the pinned reading accepts and the documented one rejects: the command at the
        first differing reply, or (the reply differs later because the stored result differed) an earlier store."""
        cmd = str((r.get("command") or ["?"])[0]).upper()
        if cmd in KF_BY_COMMAND:
            return KF_BY_COMMAND[cmd]
        for e in script.events:
            if e[0] == "cmd":
                u = str(e[2]).upper()
                if u == "ZRANGESTORE" and any(str(a).upper() == "LIMIT" for a in e[3:]):
                    return "C17-zrange-limit"
                if u == "ZUNIONSTORE" and len(e) > 3 and e[3] in e[4:]:
                    return "C17-zunionstore-dest"
        return "C17-pinned"

    def in_known_trigger(self, script):
        return self._kf.get(script.id)

    def _split(self, script):
        outs = [(l, e) for l, e in zip(script.lines, script.events) if e[0] in ("cmd", "digest", "sweep")]
        for i, (l, e) in enumerate(outs):
            if e[0] == "digest":
                return i, [(l, e) for l, e in outs[i + 1:] if e[0] == "cmd"], outs
        return None, [], outs

    def spec_script(self, script, impl_lines):
        """Initial view = the implementation's digest after the setup phase; then the commands."""
        i0, cmds, _ = self._split(script)
        if i0 is None or len(impl_lines) <= i0 or not impl_lines[i0].startswith("G "):
            return None
        dg = parse_digest(impl_lines[i0])
        sp = Script(script.id + "_spec")
        now = int(script.cfg.get("now", DEFAULT_NOW))
        for k, (v, dl) in dg["dbs"].get(0, {}).items():
            if dl != 0 and dl < now:
                continue
            if v.startswith("z{"):
                body = v[2:-1]
                sp.raw("V %s z %s" % (k, body) if body != "" else "V %s z" % k)
            else:
                sp.raw("V %s o" % k)
        for line, ev in cmds:
            sp.raw(line, ev)
        return sp

    def _rand_ok(self, argv, impl_tree, desc):
        """desc = ('arr', ['+72616e64', ':count', ('arr', members)]): validate a ZRANDMEMBER reply."""
        try:
            count = int(desc[1][1][1:])
            allowed = [tuple(x[1]) for x in desc[1][2][1]]
            if not (isinstance(impl_tree, tuple) and impl_tree[0] == "arr"):
                return False
            got = [tuple(x[1][:1] + [float_leaf(y) for y in x[1][1:]]) for x in impl_tree[1]]
            if len(got) != abs(count) or any(g not in allowed for g in got):
                return False
            if count > 0 and len(set(got)) != len(got):
                return False
            return True
        except Exception:
            return False

    def spec_compare(self, script, impl_lines, spec_lines):
        i0, cmds, outs = self._split(script)
        if i0 is None:
            return None
        a = [l for l, (_, e) in zip(impl_lines[i0 + 1:], outs[i0 + 1:]) if e[0] == "cmd"]
        if len(impl_lines) < len(outs):
            a = [l for l in impl_lines[i0 + 1:] if not l.startswith("G ")]
        for i in range(max(len(a), len(spec_lines))):
            x = a[i] if i < len(a) else "<missing>"
            y = spec_lines[i] if i < len(spec_lines) else "<missing>"
            if x == y:
                continue
            argv = cmds[i][1][2:] if i < len(cmds) else None
            if x.startswith("R ") and y.startswith("R ") and argv:
                tx, ty = parse_reply(x[2:]), parse_reply(y[2:])
                if (str(argv[0]).upper() == "ZRANDMEMBER" and isinstance(ty, tuple) and ty[0] == "arr" and len(ty[1]) == 3
                        and ty[1][0] == "+72616e64"):
                    if self._rand_ok(argv, tx, ty):
                        continue
                else:
                    nx, ny = norm_tree(tx, ty, **self.reply_opts(argv))
                    if nx == ny:
                        continue
            return {"index": i, "command": argv, "impl": x, "reference": y}
        return None

    def replay_known(self, kf):
        """The witness is still rejected by the documented reading and still accepted with the pinned behaviour adopted."""
        s = script_from_json(kf["witness"])
        s.setup_len = kf["witness"].get("setup_len", 0)
        im = run_impl([s], self.per_script_timeout())
        sp = self.spec_script(s, im.get(s.id, []))
        if sp is None:
            return False
        strict = run_model([sp], "spec17").get(sp.id, ["<none>"])
        pinned = run_model([sp], "spec17p").get(sp.id, ["<none>"])
        return bool(self.spec_compare(s, im.get(s.id, []), strict)) and not self.spec_compare(s, im.get(s.id, []), pinned)

    def assumptions(self):
        return ["no memory limit configured (st_maxmem = 0): refusals at the limit belong to C08",
                "no clock advance inside a C17 script (expiry transparency is C04); keys may carry deadlines",
                "scores and weights are dyadic rationals with few bits or infinities, written as [+-]digits[.digits] or inf spellings: "
                "binary64 arithmetic is exact on them; NaN-producing inputs (inf + -inf, 0 * inf, the token nan) and exponent / hex "
                "float spellings are not generated",
                "mem= is left out of the digest comparison: the Go handlers mutate a stored sorted set in place where the model "
                "writes the new value back with SetValues",
                "the reference adopts, where statement and documentation are silent: ZRANGE bounds are scores unless BYLEX (there is no "
                "rank mode) and start is always the lower bound, also with REV; BYLEX bounds are plain inclusive strings; unknown option "
                "words of ZRANGE are ignored; a sorted set emptied by removals stays as an empty sorted set; ZPOPMIN/MAX with a count "
                "<= 0 pop one member; ZREMRANGEBYRANK refuses a rank outside the set and accepts the two ranks in either order; "
                "ZINCRBY / ZADD INCR refuse to increment an infinite score; ZADD ... INCR replies the member's score, nil when the "
                "member is not in the set afterwards; ZRANGESTORE on a missing source replies an empty array and stores nothing; "
                "ZINTER(STORE) meets its operands in argument order (a missing key before a wrong-typed one gives the empty result)"]
