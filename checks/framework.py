"""Generic flow of a property check (see DESIGN.md §2, §6)."""
import json, os, random, re, sys, time
from common import *

DEFAULT_NOW = 1700000000000

def parse_digest(line):
    """'G mem=.. db0{k=v@dl ...}v[..] ...' -> {'mem': int, 'dbs': {db: {keyhex: (valtext, dl)}}, 'vol': {db: [keyhex]}}"""
    out = {"mem": None, "dbs": {}, "vol": {}}
    m = re.search(r"mem=(-?\d+)", line)
    if m:
        out["mem"] = int(m.group(1))
    for m in re.finditer(r"db(-?\d+)\{([^}]*)\}v\[([^\]]*)\]", _protect(line)):
        db = int(m.group(1))
        ents = {}
        for item in m.group(2).split():
            k, rest = item.split("=", 1)
            v, dl = rest.rsplit("@", 1)
            ents[k] = (_unprotect(v), int(dl))
        out["dbs"][db] = ents
        out["vol"][db] = [x for x in m.group(3).split(",") if x]
    return out

# values contain '{' '}' themselves (h{..}, S{..}, z{..}): protect inner braces before the regexp
def _protect(line):
    res, depth = [], 0
    for ch in line:
        if ch == "{":
            depth += 1
            res.append("{" if depth == 1 else "\x01")
        elif ch == "}":
            res.append("}" if depth == 1 else "\x02")
            depth -= 1
        else:
            res.append(ch)
    return "".join(res)
def _unprotect(s):
    return s.replace("\x01", "{").replace("\x02", "}")

class Outcome:
    def __init__(self):
        self.violations = []      # (kind, script, detail)
        self.known = []
        self.notes = []

class PropertyCheck:
    prop = None
    theorem_file = None           # Properties/Cxx.v
    spec_mode = None
    level = "proof"
    design_ref = ""
    def __init__(self, tier, seed):
        self.tier, self.seed = tier, seed
        self.rng = random.Random(seed)
    # ---- to override
    def streams(self):            # -> dict name -> list[Script]
        raise NotImplementedError
    UNORDERED = {"SMEMBERS", "SUNION", "SINTER", "SDIFF", "SPOP", "SRANDMEMBER", "HKEYS", "HVALS", "KEYS",
                 "ZPOPMIN", "ZPOPMAX", "ZMPOP", "ZUNION", "ZINTER", "ZDIFF", "ZRANDMEMBER"}
    UNORDERED_PAIRS = {"HGETALL"}
    def reply_opts(self, argv):
        """replies the server builds by ranging over a Go map: compared as multisets"""
        w = str(argv[0]).upper() if argv else ""
        if w in self.UNORDERED_PAIRS:
            return {"unordered": True, "pairs": True}
        return {"unordered": True} if w in self.UNORDERED else {}
    digest_opts = None
    def spec_script(self, script, impl_lines):
        return None
    def spec_compare(self, script, impl_lines, spec_lines):
        return None
    def in_known_trigger(self, script):
        return None               # id of a known finding whose trigger class contains the script
    def nontrivial(self, script, impl_lines):
        return True
    def corr_name(self, script, idx):
        evs = [e for e in script.events if e[0] in ("cmd", "digest", "sweep")]
        if idx < len(evs) and evs[idx][0] == "cmd":
            return "corr:%s:%s" % (self.prop, str(evs[idx][2]).upper())
        return "corr:%s:digest" % self.prop
    trusted_extra = []

    # ---- machinery
    def corpus(self):
        d = os.path.join(VERIF, "corpus", self.prop)
        out = []
        if os.path.isdir(d):
            for f in sorted(os.listdir(d)):
                if f.endswith(".json"):
                    s = script_from_json(json.load(open(os.path.join(d, f)))["script"])
                    s.id = "corpus_" + f[:-5]
                    s.setup_len = json.load(open(os.path.join(d, f)))["script"].get("setup_len", 0)
                    out.append(s)
        return out

    def evaluate(self, scripts):
        """-> (impl, model, divergences, rejections)"""
        impl = run_impl(scripts, self.per_script_timeout())
        model = run_model(scripts)
        div, rej = [], []
        specs = []
        for s in scripts:
            a = impl.get(s.id, ["<no output>"])
            b = model.get(s.id, ["<no output>"])
            d = compare_lines(s, a, b, self.reply_opts, self.digest_opts)
            if d:
                div.append((s, d))
            sp = self.spec_script(s, a) if self.spec_mode else None
            if sp is not None:
                specs.append((s, sp))
        if specs:
            spec_out = run_model([sp for _, sp in specs], self.spec_mode)
            for s, sp in specs:
                r = self.spec_compare(s, impl.get(s.id, []), spec_out.get(sp.id, ["<no output>"]))
                if r:
                    rej.append((s, r))
        return impl, model, div, rej

    def per_script_timeout(self):
        return 0.5

    def shrink(self, script, still_fails):
        """one pass of event removal (from the end), keeping the failure"""
        cur = script
        i = len(cur.lines) - 1
        budget = 60
        t_end = time.time() + 90 * float(os.environ.get("VERIF_TIME_SCALE", "1.5"))     # wall-clock budget of one minimisation
        while i >= 0 and budget > 0 and time.time() < t_end and HANGS["confirmed"] < 8:
            if cur.events[i][0] == "digest":
                i -= 1
                continue
            cand = Script(cur.id, cur.cfg)
            cand.lines = cur.lines[:i] + cur.lines[i + 1:]
            cand.events = cur.events[:i] + cur.events[i + 1:]
            cand.setup_len = getattr(cur, "setup_len", 0)
            budget -= 1
            try:
                if still_fails(cand):
                    cur = cand
            except Exception:
                pass
            i -= 1
        return cur

    def run(self):
        t0 = time.time()
        out = Outcome()
        prop = self.prop
        rd = os.path.join(VERIF, "replays")
        if os.path.isdir(rd):
            for f in os.listdir(rd):
                if f.startswith(prop + "_"):
                    os.remove(os.path.join(rd, f))
        # 1. build
        try:
            coq_ok, info = ensure_built(clean=(self.tier == "thorough" and os.environ.get("VERIF_CLEAN") == "1"))
        except BuildError as e:
            path = write_replay(prop, "build", {"failed": e.what, "output": e.output[-4000:]})
            print("VIOLATION property=%s replay=%s no-failing-input-found" % (prop, path))
            write_evidence(prop, self.tier, self.seed,
                           {"obligations": 1, "discharged": 0, "checker_cmd": "go build -tags verif / coq make",
                            "trusted_base": [], "explanation": "build failed: " + e.what}, [], time.time() - t0, 1, self.level)
            return 1
        # 2. proof obligations
        cone = coq_cone(self.theorem_file)
        n_obl, names = count_obligations(cone)
        n_dis = discharged(cone) if coq_ok else 0
        bad = forbidden_scan()
        ass_ok, ass_text = assumptions_of(os.path.basename(self.theorem_file)[:-2], "")
        n_print = len(re.findall(r"^\s*Print Assumptions", open(os.path.join(COQ, self.theorem_file)).read(), re.M))
        closed = ass_text.count("Closed under the global context")
        axioms = sorted(set(re.findall(r"^(\S+)\s*:\s", ass_text, re.M))) if closed < n_print else []
        proof_broken = None
        if not coq_ok:
            m = re.search(r'File "\./([^"]+)", line (\d+)', info["coq_log"])
            proof_broken = "coq make failed at %s:%s" % (m.group(1), m.group(2)) if m else "coq make failed"
        elif bad:
            proof_broken = "forbidden construct: " + bad[0]
        elif not ass_ok:
            proof_broken = "theorem file %s does not check" % self.theorem_file
        # 3. correspondence + oracle
        streams = {"corpus": self.corpus()}
        streams.update(self.streams())
        scripts = [s for v in streams.values() for s in v]
        ids = set()
        for s in scripts:
            assert s.id not in ids, "duplicate id " + s.id
            ids.add(s.id)
        stats = {}
        impl = model = {}
        div = rej = []
        if os.path.exists(os.path.join(BUILD, "modelrun")):
            impl, model, div, rej = self.evaluate(scripts)
        else:
            proof_broken = proof_broken or "model runner could not be built"
        # 4. classify
        nviol = 0
        reported = set()
        def fails_oracle(c):
            return bool(self.oracle_report(c))
        def diverges(c):
            im = run_impl([c], self.per_script_timeout()); mo = run_model([c])
            return bool(compare_lines(c, im.get(c.id, []), mo.get(c.id, []), self.reply_opts, self.digest_opts))
        kf_hit = {}
        for s, r in rej:
            kf = self.in_known_trigger(s)
            if kf:
                kf_hit.setdefault(kf, (s, r))
                continue
            if nviol >= 5:
                nviol += 1
                continue
            small = self.shrink(s, fails_oracle)
            rep = self.oracle_report(small) or {"verdict": r}
            path = write_replay(prop, "viol%d" % nviol, dict({
                "property": prop, "kind": "implementation rejected by the property's reference",
                "script": dict(small.to_json(), setup_len=getattr(small, "setup_len", 0)),
                "original_script": s.to_json(), "seed": self.seed}, **rep))
            print("VIOLATION property=%s replay=%s" % (prop, path))
            reported.add(s.id)
            nviol += 1
        rejected_ids = {s.id for s, _ in rej}
        ndiv_only = 0
        for s, d in div:
            if s.id in rejected_ids:
                continue
            kf = self.in_known_trigger(s)
            if kf:
                continue
            if ndiv_only >= 3:
                ndiv_only += 1
                continue
            small = self.shrink(s, diverges)
            im = run_impl([small], self.per_script_timeout()); mo = run_model([small])
            dd = compare_lines(small, im.get(small.id, []), mo.get(small.id, []), self.reply_opts, self.digest_opts) or d
            path = write_replay(prop, "corr%d" % ndiv_only, {
                "property": prop, "kind": "model/implementation correspondence no longer checks; the reference accepted every trace tried",
                "no_longer_checks": self.corr_name(small, dd[0]),
                "script": dict(small.to_json(), setup_len=getattr(small, "setup_len", 0)),
                "first_difference": {"index": dd[0], "impl": dd[1], "model": dd[2]},
                "impl_trace": im.get(small.id), "model_trace": mo.get(small.id), "seed": self.seed})
            print("VIOLATION property=%s replay=%s no-failing-input-found" % (prop, path))
            ndiv_only += 1
        nviol += ndiv_only
        if proof_broken and nviol == 0:
            path = write_replay(prop, "proof", {"property": prop, "kind": "proof obligation no longer checks",
                                                "no_longer_checks": proof_broken, "log_tail": info.get("coq_log", "")[-3000:]})
            print("VIOLATION property=%s replay=%s no-failing-input-found" % (prop, path))
            nviol += 1
        # 5. known findings: replay each witness
        for kf in known_findings(prop):
            still = self.replay_known(kf)
            if still:
                print("KNOWN-FINDING: property=%s %s" % (prop, kf["what"]))
                out.known.append(kf["id"])
            else:
                out.notes.append("known finding %s no longer reproduces" % kf["id"])
        # 6. evidence
        canon = {}
        for s in scripts:
            if self.nontrivial(s, impl.get(s.id, [])):
                canon[s.canonical()] = 1
        hist = {}
        for s in scripts:
            for e in s.events:
                if e[0] == "cmd":
                    hist[str(e[2]).upper()] = hist.get(str(e[2]).upper(), 0) + 1
        outcomes = {"ok": 0, "err": 0, "panic": 0, "died": 0}
        for s in scripts:
            for l in impl.get(s.id, []):
                if l == "R -": outcomes["err"] += 1
                elif l == "R !": outcomes["panic"] += 1
                elif l in ("DIED", "HUNG"): outcomes["died"] += 1
                elif l.startswith("R "): outcomes["ok"] += 1
        samples = []
        for name, lst in streams.items():
            if lst:
                s = lst[len(lst) // 2]
                samples.append({"stream": name, "script": s.events[:12], "impl_trace": impl.get(s.id, [])[:12],
                                "model_trace": model.get(s.id, [])[:12]})
        cov = {
            "obligations": n_obl, "discharged": n_dis,
            "checker_cmd": "cd /verif/coq && make -j%d (coqc 8.16.1, full .vo build) ; coqc Properties/%s ; grep gate for Admitted/Axiom/…" % (NCPU, os.path.basename(self.theorem_file)),
            "trusted_base": self.trusted_base(ass_text, closed, n_print, axioms),
            "theorems": [n for n in names if n.startswith(prop)],
            "print_assumptions": {"statements": n_print, "closed_under_global_context": closed, "axioms": axioms},
            "evaluations": len(scripts), "distinct_nontrivial": len(canon),
            "rule": self.rule(),
            "traces_validated_against_impl": len(scripts) - len(div),
            "model_impl_divergences": len(div), "reference_rejections": len(rej),
            "streams": {k: len(v) for k, v in streams.items()},
            "command_histogram": hist, "impl_outcomes": outcomes,
            "samples": samples, "exhaustive": self.exhaustive_note() is not None,
            "exhaustive_scope": self.exhaustive_note(),
            "known_findings_reproduced": out.known, "notes": out.notes,
            "coq_make_s": info.get("coq_make_s"),
        }
        write_evidence(prop, self.tier, self.seed, cov, self.assumptions(), time.time() - t0, nviol, self.level)
        log("%s %s: %d scripts, %d divergences, %d rejections, %d obligations (%d discharged), %.1fs" %
            (prop, self.tier, len(scripts), len(div), len(rej), n_obl, n_dis, time.time() - t0))
        return 1 if nviol else 0

    def oracle_report(self, c):
        """None when the reference accepts the implementation's trace of script c, else a dict for the replay file"""
        if not self.spec_mode:
            _, _, _, rej = self.evaluate([c])
            return {"verdict": rej[0][1]} if rej else None
        im = run_impl([c], self.per_script_timeout())
        sp = self.spec_script(c, im.get(c.id, []))
        if sp is None:
            return None
        so = run_model([sp], self.spec_mode)
        v = self.spec_compare(c, im.get(c.id, []), so.get(sp.id, ["<none>"]))
        if not v:
            return None
        return {"impl_trace": im.get(c.id), "reference_trace": so.get(sp.id), "verdict": v}

    def replay_known(self, kf):
        return False
    def rule(self):
        return ""
    def exhaustive_note(self):
        return None
    def assumptions(self):
        return []
    def trusted_base(self, ass_text, closed, n_print, axioms):
        tb = ["Coq 8.16.1 kernel (coqc); vm_compute in Examples only; no native_compute",
              "Print Assumptions: %d/%d property theorems 'Closed under the global context'%s" %
              (closed, n_print, "" if not axioms else "; axioms: " + ", ".join(axioms)),
              "development declares no Axiom/Parameter/Admitted (grep gate in this run)",
              "extraction: ExtrOcamlBasic + ExtrOcamlString only; OCaml driver runner/main.ml",
              "hand-written Gallina model of the Go handlers, tied by this run's differential correspondence",
              "Go harness (harness/worker), verif hooks (sugardb/verif_on.go), strict RESP parser, this Python driver"]
        return tb + list(self.trusted_extra)
