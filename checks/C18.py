"""C18 — Pub/Sub: exactly-once, in-order delivery to current subscribers only."""
import os, re
import common, framework
from common import *
from framework import *
import gen_pubsub

def run_impl18(scripts, per_script_timeout=3.0):
    return run_parallel([os.path.join(BUILD, "pubsub")], scripts, max(per_script_timeout, 3.0))

def run_model18(scripts, mode="model"):
    return common.run_model(scripts, "model18" if mode == "model" else mode)

def slots(script):
    """what each output line belongs to: ('R', argv) per command, ('T', conn) per registered connection per take"""
    out, conns, closed = [], [], set()
    for e in script.events:
        if e[0] == "close":
            closed.add(e[1])
        elif e[0] == "conn":
            if e[1] not in conns and e[1] != 0:
                conns.append(e[1])
        elif e[0] == "cmd":
            out.append(("R", e[2:]))
            if e[1] != 0 and e[1] not in conns:
                conns.append(e[1])
        elif e[0] == "take":
            out += [("T-closed" if c in closed else "T", c) for c in conns]
    return out

def compare18(script, impl_lines, model_lines, reply_opts=None, digest_opts=None):
    """None when equal, else (index, impl, model). 'R ~' (reply not returned by the embedded API) matches anything;
    PUBSUB CHANNELS is compared as a multiset."""
    sl = slots(script)
    n = max(len(impl_lines), len(model_lines))
    for i in range(n):
        a = impl_lines[i] if i < len(impl_lines) else "<missing>"
        b = model_lines[i] if i < len(model_lines) else "<missing>"
        if a == b or a == "R ~" or (i < len(sl) and sl[i][0] == "T-closed"):
            continue
        if i < len(sl) and sl[i][0] == "R" and a.startswith("R [") and b.startswith("R ["):
            argv = [str(x).upper() for x in sl[i][1][:2]]
            if argv == ["PUBSUB", "CHANNELS"] and sorted(a[3:-1].split()) == sorted(b[3:-1].split()):
                continue
        return (i, a, b)
    return None

class C18(PropertyCheck):
    prop = "C18"
    theorem_file = "Properties/C18.v"
    spec_mode = "spec18"
    design_ref = "DESIGN.md §8 C18, §9 D33"

    def __init__(self, tier, seed):
        super().__init__(tier, seed)
        # this property has its own harness program, model mode and line kinds
        import sys
        for mod in (framework, sys.modules.get("replay")):
            if mod is not None:
                mod.run_impl = run_impl18
                mod.run_model = run_model18
                mod.compare_lines = compare18

    def per_script_timeout(self):
        return 3.0

    def shrink(self, script, still_fails):
        # failures may depend on the schedule of the delivery goroutines: keep a removal only when the smaller
        # script fails twice in a row
        return super().shrink(script, lambda c: still_fails(c) and still_fails(c))

    def streams(self):
        q = self.tier == "quick"
        rng = self.rng
        return {
            "exhaustive": gen_pubsub.exhaustive(2 if q else 3, "x"),
            "random": gen_pubsub.random_scripts(rng, 60 if q else 1500, 14, "r"),
            "random_v": gen_pubsub.random_scripts(rng, 120 if q else 3000, 20, "v", kinds_pool="v"),
            "malformed": gen_pubsub.random_scripts(rng, 60 if q else 1000, 10, "m", malformed=True, kinds_pool="vt", burst=False),
            "unsub": gen_pubsub.unsub_scripts("u"),
            "close": gen_pubsub.close_scripts("k"),
        }

    def exhaustive_note(self):
        d = 2 if self.tier == "quick" else 3
        return ("every sequence of length <= %d over a %d-command alphabet (two connections; channel/pattern names that "
                "coincide), each step followed by CHANNELS/NUMPAT/NUMSUB, then three publishes and the received frames" %
                (d, len(gen_pubsub.small_alphabet())))

    def rule(self):
        return ("scripts = connections (socket-free / loopback TCP / embedded Subscribe API) + (P)SUBSCRIBE, (P)UNSUBSCRIBE, PUBLISH, "
                "bursts of 100 publishes with a subscription change inside, PUBSUB CHANNELS/NUMPAT/NUMSUB after every step, "
                "'T' = wait for the delivery goroutines to be idle and list what every connection received, in order. "
                "distinct = distinct script text; non-trivial = at least one message frame was received")

    def nontrivial(self, script, impl_lines):
        return any(l.startswith("T ") and "$6d657373616765 " in l for l in impl_lines)

    def corr_name(self, script, idx):
        sl = slots(script)
        if idx < len(sl):
            return "corr:C18:%s" % (" ".join(str(x).upper() for x in sl[idx][1][:2] if str(x).upper() in
                                              ("SUBSCRIBE", "PSUBSCRIBE", "UNSUBSCRIBE", "PUNSUBSCRIBE", "PUBLISH", "PUBSUB", "CHANNELS", "NUMPAT", "NUMSUB"))
                                     if sl[idx][0] == "R" else "received-frames")
        return "corr:C18:trace-length"

    def spec_script(self, script, impl_lines):
        sp = Script(script.id + "_spec")
        sp.lines, sp.events = list(script.lines), list(script.events)
        return sp

    def spec_compare(self, script, impl_lines, spec_lines):
        d = compare18(script, impl_lines, spec_lines)
        if not d:
            return None
        sl = slots(script)
        what = sl[d[0]] if d[0] < len(sl) else None
        return {"index": d[0], "about": (["reply to"] + list(what[1])) if what and what[0] == "R" else
                (["frames received by connection", what[1]] if what else None), "impl": d[1], "reference": d[2]}

    def in_known_trigger(self, script):
        if any(e[0] == "close" for e in script.events):
            return "C18-closed-connection-stays-subscribed"
        return None

    def replay_known(self, kf):
        s = script_from_json(kf["witness"])
        im = run_impl18([s])
        sp = self.spec_script(s, im.get(s.id, []))
        so = common.run_model([sp], "spec18")
        return bool(self.spec_compare(s, im.get(s.id, []), so.get(sp.id, [])))

    def assumptions(self):
        return ["glob matching is a parameter of the model and of the reference (glob_ok, glob_match); the executable instance covers "
                "literal characters, '*' and '?'; generated patterns stay inside it, except three that gobwas/glob refuses too",
                "when a writer goroutine runs is the Go scheduler's choice: the theorems quantify over every placement of the write "
                "steps in a history; the run explores the real scheduler only as far as the generated bursts go, and observes "
                "connections at quiescence (verif hook counting queued-but-unwritten frames, bounded wait)",
                "one write of a frame to a net.Conn is atomic and a connection's frames are written by one goroutine (outbox.go)",
                "adopted where statement and docs are silent: a pattern subscriber is told the pattern, not the channel; UNSUBSCRIBE "
                "confirmations are numbered 1..n and sent only for subscriptions that existed (Test_HandleUnsubscribe); PUBSUB CHANNELS "
                "and NUMSUB count patterns too (Test_HandleSubscribe): NUMSUB n = subscribers of the channel n + subscribers of the pattern n, so "
                "one connection holding both counts twice although the docs say 'how many clients' (Example C18_numsub_counts_subscriptions); "
                "PUBLISH replies +OK; the UNSUBSCRIBE reply (returned to the "
                "caller) is not ordered with respect to frames still queued for that connection"]

if __name__ == "__main__":
    pass
