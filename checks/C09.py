"""C09 — log rewrite is transparent and crash-atomic."""
from aofcheck import *
import gen_aof
install()

# Before the repair of the rewrite (fix-c09-atomic-rewrite) six windows were compared with the faithful model only;
# every image is judged by the reference now.
NOT_ATOMIC = ()

class C09(AofCheck):
    prop = "C09"
    theorem_file = "Properties/C09.v"
    unjudged_rewrite_points = NOT_ATOMIC

    def streams(self):
        q = self.tier == "quick"
        rng = self.rng
        sched = gen_aof.all_schedules("s")
        if q:
            sched = sched[::3]
        return {
            "rewrite": [gen_aof.workload(rng, "w%d" % i, rng.randrange(5, 12), torn=1, rewrite=0.3) for i in range(40 if q else 1000)],
            "fresh": [self.fresh(i) for i in range(3)],
            "rewrite-twice": [self.twice(i) for i in range(24 if q else 240)],
            "leftover-tmp": [self.leftover(i) for i in range(9 if q else 90)],
            "chain": [gen_aof.chain(rng, "c%d" % i, 3, rng.randrange(2, 7), rewrite=0.3) for i in range(40 if q else 1000)],
            "rewrite-dies": [self.dies(i) for i in range(len(gen_aof.K_POINTS) * (2 if q else 12))],
            "concurrent": sched + [gen_aof.concurrent(rng, "r%d" % i, rng.randrange(0, 5)) for i in range(20 if q else 600)],
        }

    def fresh(self, i):
        s = Script("f%d" % i, {"aofsync": gen_aof.POLICIES[i % 3]})
        s.raw("O", ["open"]); s.raw("RW 1", ["rewrite"]); s.raw("IMG", ["image"])
        if i:
            s.raw("RW 1", ["rewrite"])
        s.raw("D 0 12", ["select", 0, 12])
        gen_aof.add_cmd(s, 0, ["SET", "a", "x"]); gen_aof.add_cmd(s, 1, ["RPUSH", "l", "p"])
        s.raw("G", ["digest"]); s.raw("K", ["kill"]); s.raw("O", ["open"]); s.raw("G", ["digest"])
        return s

    def dies(self, i):
        """writes, a REWRITEAOF that dies at a failpoint, restart on what is left (everything acknowledged must be
        there, nothing twice), more writes, restart again (they must be there too: an interrupted truncation has to
        be completed by the first restart), a completed rewrite, restart"""
        rng = self.rng
        s = Script("k%d" % i, {"aofsync": gen_aof.POLICIES[(i // len(gen_aof.K_POINTS)) % 3], "images": "0"})
        s.raw("O", ["open"])
        d = rng.choice([0, 0, 1, 12])
        if d:
            s.raw("D 1 %d" % d, ["select", 1, d])
        for argv in rng.sample([["INCR", "n"], ["RPUSH", "l", "a"], ["APPEND", "a", "x"], ["SADD", "s", "m"], ["HSET", "h", "f", "1"],
                                ["ZADD", "z", "1.5", "m"]], rng.randrange(1, 5)):
            gen_aof.add_cmd(s, 1, argv)
        if i % 2:
            s.raw("RW 1", ["rewrite"]); gen_aof.add_cmd(s, 1, ["INCR", "n"])
        s.raw("RWK 1 %s" % gen_aof.K_POINTS[i % len(gen_aof.K_POINTS)], ["rewrite dies at", gen_aof.K_POINTS[i % len(gen_aof.K_POINTS)]])
        s.raw("K", ["kill"]); s.raw("O", ["open"]); s.raw("G", ["digest"])
        if d:
            s.raw("D 1 %d" % d, ["select", 1, d])
        gen_aof.add_cmd(s, 1, ["INCR", "n"]); gen_aof.add_cmd(s, 1, ["RPUSH", "l", "b"])
        s.raw("G", ["digest"]); s.raw("K", ["kill"]); s.raw("O", ["open"]); s.raw("G", ["digest"])
        s.raw("RW 1", ["rewrite"]); gen_aof.add_cmd(s, 1, ["INCR", "n"])
        s.raw("G", ["digest"]); s.raw("K", ["kill"]); s.raw("O", ["open"]); s.raw("G", ["digest"])
        return s

    EMPTIERS = [[["DEL", "a"], ["DEL", "l"], ["DEL", "h"]], [["FLUSHALL"]], [["FLUSHDB"]], [["DEL", "a"]],
                [["LPOP", "l"], ["DEL", "a"], ["HDEL", "h", "f"]], []]
    def twice(self, i):
        """a completed rewrite, then changes that shrink the dataset (possibly to nothing, in one or in every database),
        a second rewrite, optionally more writes, restart: the second preamble must replace the first"""
        rng = self.rng
        s = Script("t%d" % i, {"aofsync": gen_aof.POLICIES[i % 3]})
        s.raw("O", ["open"])
        dbs = [0] if i % 2 == 0 else [0, rng.choice([1, 12])]
        for d in dbs:
            s.raw("D 0 %d" % d, ["select", 0, d])
            gen_aof.add_cmd(s, 0, ["SET", "a", "x"]); gen_aof.add_cmd(s, 0, ["RPUSH", "l", "p"]); gen_aof.add_cmd(s, 0, ["HSET", "h", "f", "1"])
        s.raw("RW 0", ["rewrite"])
        for d in dbs:
            s.raw("D 0 %d" % d, ["select", 0, d])
            for argv in self.EMPTIERS[(i // 2 + d) % len(self.EMPTIERS)]:
                gen_aof.add_cmd(s, 0, argv)
        s.raw("G", ["digest"]); s.raw("RW 0", ["rewrite"])
        if i % 3 == 0:
            gen_aof.add_cmd(s, 0, ["SET", "late", "1"])
        s.raw("G", ["digest"]); s.raw("K", ["kill"]); s.raw("O", ["open"]); s.raw("G", ["digest"])
        return s

    def leftover(self, i):
        """an earlier crashed rewrite left a (longer) temporary preamble behind; later rewrites must not be disturbed by it"""
        s = Script("lt%d" % i, {"aofsync": gen_aof.POLICIES[i % 3], "images": "0"})
        s.raw("O", ["open"])
        for k in range(1 + i % 3):
            gen_aof.add_cmd(s, 0, ["SET", "k%d" % k, "v" * (5 + i)])
        s.raw("LT %d" % [300, 5000, 40][i % 3], ["leftover-tmp"])
        s.raw("RW 0", ["rewrite"])
        gen_aof.add_cmd(s, 0, ["RPUSH", "l", "x"])
        s.raw("G", ["digest"]); s.raw("K", ["kill"]); s.raw("O", ["open"]); s.raw("G", ["digest"])
        if i % 2:
            gen_aof.add_cmd(s, 0, ["DEL", "k0"]); s.raw("LT 5000", ["leftover-tmp"]); s.raw("RW 0", ["rewrite"])
            s.raw("G", ["digest"]); s.raw("Q", ["shutdown"]); s.raw("O", ["open"]); s.raw("G", ["digest"])
        return s

    def exhaustive_note(self):
        return ("concurrent stream: every (who goes first) x (writer point, %d) x (rewrite point, %d) placement of a writer "
                "inside the rewrite window%s" % (len(gen_aof.W_POINTS), len(gen_aof.R_POINTS),
                                                 " (every third in the quick tier)" if self.tier == "quick" else ""))

    def rule(self):
        return ("as C02, with REWRITEAOF at random positions (image of the directory at each of the rewrite's file steps, the "
                "torn preamble write at sampled offsets), rewrite of a fresh log, crash chains containing rewrites, and a write "
                "command parked at a yield point while REWRITEAOF runs on another goroutine (or the other way round); final "
                "disk, mid image and a restart are judged by the reference; a REWRITEAOF that dies at each of its failpoints, "
                "followed by a restart, more writes and another restart; every image at every failpoint and every cut of the "
                "log's new header is judged by the reference (no window is exempt any more)")

    def in_known_trigger(self, script):
        return None

    def replay_known(self, kf):
        s = script_from_json(kf["witness"])
        s.id = "kf_" + kf["id"].replace("-", "_")
        im = aof_run_impl([s], 3.0)
        lines = im.get(s.id, [])
        saved = self.unjudged_rewrite_points
        self.unjudged_rewrite_points = ()
        try:
            sp = self.spec_script(s, lines)
            if sp is None:
                return False
            so = aof_run_model([sp], "spec02")
            return bool(self.spec_compare(s, lines, so.get(sp.id, ["<no output>"])))
        finally:
            self.unjudged_rewrite_points = saved

    def spec_compare(self, script, impl_lines, spec_lines):
        saved = None
        return AofCheck.spec_compare(self, script, impl_lines, spec_lines)

    def assumptions(self):
        return ["as C02", "encoding/json round-trips the typed preamble (internal/keydata_json.go), checked by restoring it",
                "the two atomic flags stateCopyInProgress / stateMutationInProgress are tested and set in two steps; the harness "
                "does not yield between the test and the set (C05's domain)"]
    trusted_extra = ["harness/crash schedules (a goroutine parked inside the point function), failpoint hooks"]
