"""C09 — log rewrite is transparent and crash-atomic."""
from aofcheck import *
import gen_aof
install()

# the windows in which the code as it is does not keep the promise (known finding C09-rewrite-not-crash-atomic):
# the model reproduces them (strict correspondence), the reference does not judge them
NOT_ATOMIC = ("pre.create.after_truncate", "pre.create.torn_write", "pre.create.after_write", "pre.create.after_sync",
              "rewrite.after_preamble", "log.trunc.begin")

class C09(AofCheck):
    prop = "C09"
    theorem_file = "Properties/C09.v"
    unjudged_rewrite_points = NOT_ATOMIC

    def streams(self):
        q = self.tier == "quick"
        rng = self.rng
        sched = gen_aof.all_schedules("s")
        if q:
            sched = sched[::3]
        return {
            "rewrite": [gen_aof.workload(rng, "w%d" % i, rng.randrange(5, 12), torn=1, rewrite=0.3) for i in range(50 if q else 1000)],
            "fresh": [self.fresh(i) for i in range(3)],
            "rewrite-twice": [self.twice(i) for i in range(24 if q else 240)],
            "chain": [gen_aof.chain(rng, "c%d" % i, 3, rng.randrange(2, 7), rewrite=0.3) for i in range(40 if q else 1000)],
            "concurrent": sched + [gen_aof.concurrent(rng, "r%d" % i, rng.randrange(0, 5)) for i in range(20 if q else 600)],
        }

    def fresh(self, i):
        s = Script("f%d" % i, {"aofsync": gen_aof.POLICIES[i % 3]})
        s.raw("O", ["open"]); s.raw("RW 1", ["rewrite"]); s.raw("IMG", ["image"])
        if i:
            s.raw("RW 1", ["rewrite"])
        s.raw("D 0 12", ["select", 0, 12])
        gen_aof.add_cmd(s, 0, ["SET", "a", "x"]); gen_aof.add_cmd(s, 1, ["RPUSH", "l", "p"])
        s.raw("G", ["digest"]); s.raw("K", ["kill"]); s.raw("O", ["open"]); s.raw("G", ["digest"])
        return s

    EMPTIERS = [[["DEL", "a"], ["DEL", "l"], ["DEL", "h"]], [["FLUSHALL"]], [["FLUSHDB"]], [["DEL", "a"]],
                [["LPOP", "l"], ["DEL", "a"], ["HDEL", "h", "f"]], []]
    def twice(self, i):
        """a completed rewrite, then changes that shrink the dataset (possibly to nothing, in one or in every database),
        a second rewrite, optionally more writes, restart: the second preamble must replace the first"""
        rng = self.rng
        s = Script("t%d" % i, {"aofsync": gen_aof.POLICIES[i % 3]})
        s.raw("O", ["open"])
        dbs = [0] if i % 2 == 0 else [0, rng.choice([1, 12])]
        for d in dbs:
            s.raw("D 0 %d" % d, ["select", 0, d])
            gen_aof.add_cmd(s, 0, ["SET", "a", "x"]); gen_aof.add_cmd(s, 0, ["RPUSH", "l", "p"]); gen_aof.add_cmd(s, 0, ["HSET", "h", "f", "1"])
        s.raw("RW 0", ["rewrite"])
        for d in dbs:
            s.raw("D 0 %d" % d, ["select", 0, d])
            for argv in self.EMPTIERS[(i // 2 + d) % len(self.EMPTIERS)]:
                gen_aof.add_cmd(s, 0, argv)
        s.raw("G", ["digest"]); s.raw("RW 0", ["rewrite"])
        if i % 3 == 0:
            gen_aof.add_cmd(s, 0, ["SET", "late", "1"])
        s.raw("G", ["digest"]); s.raw("K", ["kill"]); s.raw("O", ["open"]); s.raw("G", ["digest"])
        return s

    def exhaustive_note(self):
        return ("concurrent stream: every (who goes first) x (writer point, %d) x (rewrite point, %d) placement of a writer "
                "inside the rewrite window%s" % (len(gen_aof.W_POINTS), len(gen_aof.R_POINTS),
                                                 " (every third in the quick tier)" if self.tier == "quick" else ""))

    def rule(self):
        return ("as C02, with REWRITEAOF at random positions (image of the directory at each of the rewrite's file steps, the "
                "torn preamble write at sampled offsets), rewrite of a fresh log, crash chains containing rewrites, and a write "
                "command parked at a yield point while REWRITEAOF runs on another goroutine (or the other way round); final "
                "disk, mid image and a restart are judged by the reference; the five windows of the known finding are compared "
                "with the faithful model only")

    def in_known_trigger(self, script):
        return None

    def replay_known(self, kf):
        s = script_from_json(kf["witness"])
        s.id = "kf_" + kf["id"].replace("-", "_")
        im = aof_run_impl([s], 3.0)
        lines = im.get(s.id, [])
        saved = self.unjudged_rewrite_points
        self.unjudged_rewrite_points = ()
        try:
            sp = self.spec_script(s, lines)
            if sp is None:
                return False
            so = aof_run_model([sp], "spec02")
            return bool(self.spec_compare(s, lines, so.get(sp.id, ["<no output>"])))
        finally:
            self.unjudged_rewrite_points = saved

    def spec_compare(self, script, impl_lines, spec_lines):
        saved = None
        return AofCheck.spec_compare(self, script, impl_lines, spec_lines)

    def assumptions(self):
        return ["as C02", "encoding/json round-trips the typed preamble (internal/keydata_json.go), checked by restoring it",
                "the two atomic flags stateCopyInProgress / stateMutationInProgress are tested and set in two steps; the harness "
                "does not yield between the test and the set (C05's domain)"]
    trusted_extra = ["harness/crash schedules (a goroutine parked inside the point function), failpoint hooks"]
