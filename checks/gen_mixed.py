"""Mixed-module histories (C19, C20, C13, C04): every data module's commands over a few keys."""
import random
from common import *
import gen_kv, gen_list

NOW = gen_kv.NOW
KEYS = ["a", "b", "c"]
MEMBERS = ["m1", "m2", "x", "", "bin\x00\xff"]
FIELDS = ["f", "g", "n"]

def hash_cmd(rng, k):
    c = rng.choice(["HSET", "HSET", "HDEL", "HINCRBY", "HGET", "HGETALL", "HLEN", "HSETNX"])
    if c in ("HSET", "HSETNX"): return [c, k] + sum([[rng.choice(FIELDS), rng.choice(gen_kv.VALUES)] for _ in range(rng.randint(1, 2))], [])
    if c == "HDEL": return [c, k, rng.choice(FIELDS)]
    if c == "HINCRBY": return [c, k, "n", rng.choice(["1", "-2", "5"])]
    if c == "HGET": return [c, k, rng.choice(FIELDS)]
    return [c, k]

def list_cmd(rng, k):
    return gen_list.rand_cmd(rng)[:1] + [k] + gen_list.rand_cmd(rng)[2:] if False else _list_cmd(rng, k)

def _list_cmd(rng, k):
    c = rng.choice(["LPUSH", "RPUSH", "LPOP", "RPOP", "LSET", "LTRIM", "LREM", "LRANGE", "LLEN", "LMOVE"])
    e = lambda: rng.choice(gen_list.ELEMS)
    i = lambda: rng.choice(["-2", "-1", "0", "1", "2", "5"])
    if c in ("LPUSH", "RPUSH"): return [c, k] + [e() for _ in range(rng.randint(1, 3))]
    if c in ("LPOP", "RPOP"): return [c, k] + ([i()] if rng.random() < 0.4 else [])
    if c == "LSET": return [c, k, i(), e()]
    if c in ("LTRIM", "LRANGE"): return [c, k, i(), i()]
    if c == "LREM": return [c, k, i(), e()]
    if c == "LMOVE": return [c, k, rng.choice(KEYS), rng.choice(["LEFT", "RIGHT"]), rng.choice(["LEFT", "RIGHT"])]
    return [c, k]

def set_cmd(rng, k, inplace_ok):
    """inplace_ok=False: only commands that go through SetValues / read (no mutation of an existing set through its pointer)."""
    if inplace_ok:
        c = rng.choice(["SADD", "SREM", "SPOP", "SMOVE", "SCARD", "SMEMBERS", "SUNIONSTORE", "SINTERSTORE", "SDIFFSTORE"])
    else:
        c = rng.choice(["SCARD", "SMEMBERS", "SISMEMBER", "SUNIONSTORE", "SINTERSTORE", "SUNION", "SINTER"])
    m = lambda: rng.choice(MEMBERS)
    if c == "SADD": return [c, k] + [m() for _ in range(rng.randint(1, 3))]
    if c == "SREM": return [c, k, m()]
    if c == "SPOP": return [c, k, "9"]
    if c == "SMOVE": return [c, k, rng.choice(KEYS), m()]
    if c == "SISMEMBER": return [c, k, m()]
    if c in ("SUNIONSTORE", "SINTERSTORE", "SDIFFSTORE"): return [c, rng.choice(KEYS), k, rng.choice(KEYS)]
    if c in ("SUNION", "SINTER"): return [c, k, rng.choice(KEYS)]
    return [c, k]

def zset_cmd(rng, k, inplace_ok):
    sc = lambda: rng.choice(["1", "2", "-1", "1.5", "0"])
    m = lambda: rng.choice(["m1", "m2", "x"])
    if inplace_ok:
        c = rng.choice(["ZADD", "ZREM", "ZINCRBY", "ZPOPMIN", "ZCARD", "ZSCORE", "ZUNIONSTORE", "ZRANGE"])
    else:
        c = rng.choice(["ZCARD", "ZSCORE", "ZRANGE", "ZINTERSTORE", "ZCOUNT"])
    if c == "ZADD": return [c, k, sc(), m()]
    if c == "ZREM": return [c, k, m()]
    if c == "ZINCRBY": return [c, k, "1", m()]
    if c == "ZPOPMIN": return [c, k]
    if c == "ZSCORE": return [c, k, m()]
    if c == "ZRANGE": return [c, k, "-inf", "+inf"]
    if c == "ZCOUNT": return [c, k, "-inf", "+inf"]
    if c in ("ZUNIONSTORE", "ZINTERSTORE"): return [c, rng.choice(KEYS), "2", k, rng.choice(KEYS)]
    return [c, k]

def keyspace_cmd(rng, k, malformed=False):
    """RANDOMKEY / TOUCH / OBJECTFREQ / OBJECTIDLETIME / ZRANDMEMBER: the commands that go through the keyspace functions
    randomKey / updateKeysInCache / getObjectFreq / getObjectIdleTime, and the randomised sorted-set reader.  The replies of
    RANDOMKEY and ZRANDMEMBER are random: common.compare_lines compares their shape only (RANDOM_WORDS)."""
    c = rng.choice(["RANDOMKEY", "TOUCH", "OBJECTFREQ", "OBJECTIDLETIME", "ZRANDMEMBER", "ZRANDMEMBER"])
    if c == "RANDOMKEY": argv = [c]
    elif c == "TOUCH": argv = [c] + [rng.choice(KEYS + ["zz"]) for _ in range(rng.randint(1, 3))]
    elif c == "ZRANDMEMBER":
        argv = [c, k]
        if rng.random() < 0.7:
            argv.append(rng.choice(["0", "1", "2", "-1", "-3", "7", "-7"] + (["x", ""] if malformed else [])))
            if rng.random() < 0.5: argv.append(rng.choice(["WITHSCORES", "withscores"] + (["nope"] if malformed else [])))
    else: argv = [c, k]
    if malformed and rng.random() < 0.3:
        argv = argv[:-1] if rng.random() < 0.5 and len(argv) > 1 else argv + ["junk"]
    return argv

def rand_cmd(rng, inplace_ok=False, malformed=False, keyspace=False):
    k = rng.choice(KEYS)
    if keyspace and rng.random() < 0.1:
        return keyspace_cmd(rng, k, malformed)
    r = rng.random()
    if r < 0.35: return gen_kv.rand_cmd(rng, malformed, True)
    if r < 0.55: return _list_cmd(rng, k)
    if r < 0.72: return hash_cmd(rng, k)
    if r < 0.86: return set_cmd(rng, k, inplace_ok)
    return zset_cmd(rng, k, inplace_ok)

def script(rng, sid, length, inplace_ok=False, malformed=False, dbs=(0,), conns=(0,), advances=True, flush=True, digest_p=0.3, keyspace=True):
    s = Script(sid, {"now": NOW})
    gen_kv.rand_preset(rng, s, dbs)
    s.digest()
    for c in conns:
        if c != 0:
            s.raw("N %d" % c, ["newconn", c])
    for _ in range(rng.randint(1, length)):
        r = rng.random()
        c = rng.choice(conns)
        if advances and r < 0.08:
            s.advance(rng.choice([1, 10, 21, 1000, 1501, 5001]))
        elif flush and r < 0.11:
            s.cmd(c, rng.choice(["FLUSHDB", "FLUSHALL"]))
        elif len(dbs) > 1 and r < 0.2:
            d = rng.choice(dbs)
            if c == 0: s.select_embedded(d)
            else: s.cmd(c, "SELECT", str(d))
        elif len(dbs) > 1 and r < 0.24:
            s.cmd(c, "SWAPDB", str(rng.choice(dbs)), str(rng.choice(dbs)))
        else:
            s.cmd(c, *rand_cmd(rng, inplace_ok, malformed, keyspace))
        if rng.random() < digest_p:
            s.digest()
    s.digest()
    return s
