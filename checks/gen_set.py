"""Generators for set-command scripts (C16, and the set half of C13: purity + alias probes)."""
import itertools, random
from common import *

KEYS = ["a", "b", "c"]
MEMBERS = ["x", "y", "z", "", "x\r\n\x00\xff", "12", "limit", "%d"]
COUNTS = ["-4", "-2", "-1", "0", "1", "2", "3", "9", "+2", "-0"]
BADINT = ["zz", "", "1.5x", " 1", "1_0", "--1"]
OTHER_VALUES = [vstr("v"), vint(12), vfloat(3, 2), vlist(["m1", "m2"]), vhash({"f": vstr("v")}), vzset({"m": "1/1"})]

READS = ("SCARD", "SISMEMBER", "SMISMEMBER", "SMEMBERS", "SUNION", "SINTER", "SDIFF", "SINTERCARD", "SRANDMEMBER")
WRITES = ("SADD", "SREM", "SMOVE", "SPOP", "SUNIONSTORE", "SINTERSTORE", "SDIFFSTORE")
RANDOMISED = ("SPOP", "SRANDMEMBER")

def deterministic_rand_cmd(argv, card=None):
    """SPOP / SRANDMEMBER invocations whose outcome is a function of the state: count 0, or a
    positive count that certainly covers the whole set (sets in these scripts have < 9 members)."""
    return len(argv) == 3 and argv[2] in ("0", "9", "-0")

def alphabet():
    """A concrete command alphabet with boundary arguments over keys a, b (c is never preset: missing)."""
    cmds = []
    for k in ("a", "b"):
        cmds += [("SADD", k, "x"), ("SADD", k, "y", "y", "x"), ("SREM", k, "x"), ("SREM", k, "x", "x", "q"),
                 ("SCARD", k), ("SMEMBERS", k), ("SISMEMBER", k, "x"), ("SMISMEMBER", k, "x", "q", "x"),
                 ("SPOP", k, "9"), ("SPOP", k, "0"), ("SRANDMEMBER", k, "9"), ("SRANDMEMBER", k, "0")]
    ks = ("a", "b", "c")
    for s in ks:
        for d in ks:
            cmds += [("SMOVE", s, d, "x")]
    cmds += [("SMOVE", "a", "b", "q")]
    for op in ("SUNION", "SINTER", "SDIFF"):
        cmds += [(op, "a"), (op, "c"), (op, "a", "b"), (op, "b", "a"), (op, "a", "a"), (op, "a", "c"), (op, "c", "a"),
                 (op, "a", "b", "c"), (op, "a", "b", "a", "b")]
    for op in ("SUNIONSTORE", "SINTERSTORE", "SDIFFSTORE"):
        cmds += [(op, "d", "a"), (op, "d", "a", "b"), (op, "a", "a", "b"), (op, "b", "a", "b"), (op, "a", "a"),
                 (op, "d", "c"), (op, "d", "a", "c"), (op, "a", "c"), (op, "d", "b", "a", "a")]
    cmds += [("SINTERCARD", "a"), ("SINTERCARD", "a", "b"), ("SINTERCARD", "a", "LIMIT", "1"),
             ("SINTERCARD", "a", "b", "limit", "1"), ("SINTERCARD", "a", "b", "LIMIT", "0"),
             ("SINTERCARD", "a", "b", "LIMIT", "-1"), ("SINTERCARD", "a", "b", "a", "LIMIT", "2"),
             ("SINTERCARD", "b", "a", "a", "LIMIT", "1"), ("SINTERCARD", "a", "c", "LIMIT", "1"),
             ("SINTERCARD", "LIMIT", "1"), ("SINTERCARD", "a", "LIMIT"), ("SINTERCARD", "a", "LIMIT", "zz"),
             ("SINTERCARD", "a", "b", "LIMIT", "1", "extra")]
    return cmds

PRESETS = [
    [],
    [("a", vset(["x", "y", "z"])), ("b", vset(["y", "z", "w"]))],
    [("a", vset(["x"])), ("b", vset([]))],                       # b: an emptied set
    [("a", vset(["x", "y"])), ("b", vstr("str"))],               # b: another type
    [("a", vlist(["x"])), ("b", vset(["x", "q"]))],              # a: another type
    [("a", vset(["x", "y", "z", "q"])), ("b", vset(["x", "y", "z", "q"])), ("d", vset(["old"]))],
    [("a", vset(["x", ""])), ("b", vset(["", "x\r\n"])), ("d", vstr("v"))],
]

ALL_KEYS = ["a", "b", "c", "d"]

def finish(s, keys=ALL_KEYS):
    """Re-read every key (purity / alias probes end here) and take the digest."""
    for k in keys:
        s.cmd(0, "SMEMBERS", k)
        s.cmd(0, "SCARD", k)
    s.digest()
    return s

def exhaustive(depth, tag="x"):
    out, n = [], 0
    alpha = alphabet()
    for pi, preset in enumerate(PRESETS):
        for d in range(1, depth + 1):
            for seq in itertools.product(alpha, repeat=d):
                s = Script("%s%d" % (tag, n)); n += 1
                for k, v in preset:
                    s.preset(0, k, v)
                s.digest()
                s.setup_len = len(preset)
                for c in seq:
                    s.cmd(0, *c)
                finish(s)
                out.append(s)
    return out

def rand_keys(rng, lo, hi):
    return [rng.choice(KEYS + ["d"]) for _ in range(rng.randint(lo, hi))]

def rand_cmd(rng, malformed=False, randomised=False):
    k = rng.choice(KEYS + ["d"])
    m = lambda: rng.choice(MEMBERS)
    cnt = lambda: rng.choice(BADINT) if malformed and rng.random() < 0.3 else rng.choice(COUNTS)
    names = ["SADD", "SADD", "SREM", "SCARD", "SISMEMBER", "SMISMEMBER", "SMEMBERS", "SMOVE", "SUNION", "SINTER", "SDIFF",
             "SUNIONSTORE", "SINTERSTORE", "SDIFFSTORE", "SINTERCARD", "SINTERCARD", "sadd", "sUnionStore", "SPOP", "SRANDMEMBER"]
    c = rng.choice(names)
    u = c.upper()
    if u in ("SADD", "SREM", "SMISMEMBER"): argv = [c, k] + [m() for _ in range(rng.randint(1, 4))]
    elif u in ("SCARD", "SMEMBERS"): argv = [c, k]
    elif u == "SISMEMBER": argv = [c, k, m()]
    elif u == "SMOVE": argv = [c, k, rng.choice(KEYS + ["d"]), m()]
    elif u in ("SUNION", "SINTER", "SDIFF"): argv = [c] + rand_keys(rng, 1, 4)
    elif u in ("SUNIONSTORE", "SINTERSTORE", "SDIFFSTORE"): argv = [c, rng.choice(KEYS + ["d"])] + rand_keys(rng, 1, 4)
    elif u == "SINTERCARD":
        argv = [c] + rand_keys(rng, 1, 4)
        if rng.random() < 0.6:
            argv += [rng.choice(["LIMIT", "limit", "Limit"]), cnt()]
    else:  # SPOP / SRANDMEMBER
        if randomised:
            argv = [c, k] + ([cnt()] if rng.random() < 0.8 else [])
        else:
            argv = [c, k, rng.choice(["0", "9"])]
    if malformed and rng.random() < 0.3:
        if rng.random() < 0.5 and len(argv) > 1: argv = argv[:-1]
        else: argv = argv + [m()]
        if u in RANDOMISED and not randomised and not deterministic_rand_cmd(argv):
            argv = [c, k, "9", "extra"]
    return argv

def rand_preset(rng, s):
    n = 0
    now = 1700000000000
    for k in KEYS + ["d"]:
        r = rng.random()
        dl = rng.choice([0, 0, 0, now + 5000, now - 5])   # none / future / already passed
        if r < 0.55:
            s.preset(0, k, vset([rng.choice(MEMBERS) for _ in range(rng.randint(0, 5))]), dl); n += 1
        elif r < 0.75:
            s.preset(0, k, rng.choice(OTHER_VALUES), dl); n += 1
    if rng.random() < 0.2:
        s.preset(1, "a", vset(["other-db"])); n += 1
    return n

def random_scripts(rng, count, length, malformed=False, tag="r", randomised=False):
    out = []
    for n in range(count):
        s = Script("%s%d" % (tag, n))
        s.setup_len = rand_preset(rng, s)
        s.digest()
        for _ in range(rng.randint(1, length)):
            s.cmd(0, *rand_cmd(rng, malformed, randomised))
            if rng.random() < 0.15:
                s.digest()
        finish(s)
        s.oracle_only = randomised
        out.append(s)
    return out

def alias_probes(rng, count, tag="al"):
    """C13: X...STORE dst srcs, then writes to dst, then re-read every source - and the symmetric order
    (write to a source, re-read dst); read-only algebra commands followed by a re-read of the operands."""
    out = []
    stores = ("SUNIONSTORE", "SINTERSTORE", "SDIFFSTORE")
    n = 0
    for op in stores:
        for srcs in (["a"], ["a", "a"], ["a", "b"], ["b", "a"], ["a", "c"], ["a", "b", "c"], ["c", "a"]):
            for dst in ("d", "a", "b"):
                for first_write in ("dst", "src"):
                    s = Script("%s%d" % (tag, n)); n += 1
                    s.preset(0, "a", vset(["x", "y", "z"])); s.preset(0, "b", vset(["y", "z", "w"]))
                    if rng.random() < 0.5:
                        s.preset(0, "d", rng.choice([vset(["old"]), vstr("v")]))
                    s.setup_len = 3
                    s.digest()
                    s.cmd(0, op, dst, *srcs)
                    s.digest()
                    tgt = dst if first_write == "dst" else srcs[0]
                    s.cmd(0, "SADD", tgt, "new1", "x")
                    s.cmd(0, "SREM", tgt, "y")
                    s.cmd(0, "SMOVE", tgt, "e", "z")
                    finish(s, ALL_KEYS + ["e"])
                    out.append(s)
    for op in ("SUNION", "SINTER", "SDIFF", "SINTERCARD"):
        for srcs in (["a"], ["a", "b"], ["b", "a"], ["a", "b", "c"], ["a", "a"], ["a", "b", "a", "b"]):
            s = Script("%s%d" % (tag, n)); n += 1
            s.preset(0, "a", vset(["x", "y", "z"])); s.preset(0, "b", vset(["y", "z", "w"]))
            s.setup_len = 2
            s.digest()
            s.cmd(0, op, *srcs)
            s.digest()
            s.cmd(0, op, *reversed(srcs))
            finish(s)
            out.append(s)
    return out
