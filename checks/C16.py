"""C16 — set commands implement mathematical sets (also serves the set half of C13: purity of the
read-only set commands, no aliasing between a ...STORE destination and its sources)."""
import json, re
from common import *
import framework
from framework import *
import gen_set

UNORDERED = ("SMEMBERS", "SUNION", "SINTER", "SDIFF", "SPOP", "SRANDMEMBER")

# Scripts of the randomised stream (SPOP / SRANDMEMBER with arbitrary counts) are judged by the reference
# oracle only: the model cannot follow a random choice, so their model-vs-implementation comparison is void.
_plain_compare = framework.compare_lines
def _compare_lines(script, impl_lines, model_lines, reply_opts=None, digest_opts=None):
    if getattr(script, "oracle_only", False):
        return None
    return _plain_compare(script, impl_lines, model_lines, reply_opts, digest_opts)
framework.compare_lines = _compare_lines

KF_BASE = "KF-C16-sdiff-missing-base"
KF_SKIP = "KF-C16-sdiff-skips-non-sets"

def _sel_of(reply_line):
    """'R [$61 $62]' -> ['61','62'] (hex, '-' for the empty string); None when not an array of bulk strings"""
    if not reply_line.startswith("R [") or not reply_line.endswith("]"):
        return None
    toks = reply_line[3:-1].split()
    if any(not t.startswith("$") for t in toks):
        return None
    return [t[1:] or "-" for t in toks]

def _sorted_reply(line):
    sel = _sel_of(line)
    if sel is None:
        return line
    return "R [" + " ".join("$" + ("" if h == "-" else h) for h in sorted(sel)) + "]"

class C16(PropertyCheck):
    prop = "C16"
    theorem_file = "Properties/C16.v"
    spec_mode = "spec16"
    # SADD/SREM/SPOP/SMOVE change a set in place in Go (no SetValues, memUsed untouched); the model writes the
    # new set back with SetValues.  Until the core has a write-back primitive that leaves the counters alone,
    # the memory figure is not compared here (it is C19's subject).
    digest_opts = {"with_mem": False}

    def __init__(self, tier, seed):
        super().__init__(tier, seed)
        self._known = {}

    def reply_opts(self, argv):
        return {"unordered": True} if argv and str(argv[0]).upper() in UNORDERED else {}

    def streams(self):
        q = self.tier == "quick"
        rng = self.rng
        return {
            "exhaustive": gen_set.exhaustive(1 if q else 2, "x"),
            "random": gen_set.random_scripts(rng, 400 if q else 6000, 30, False, "r"),
            "malformed": gen_set.random_scripts(rng, 150 if q else 2000, 12, True, "m"),
            "alias": gen_set.alias_probes(rng, 0, "al"),
            "randomised": gen_set.random_scripts(rng, 300 if q else 5000, 20, False, "z", randomised=True),
        }

    def exhaustive_note(self):
        d = 1 if self.tier == "quick" else 2
        return "every command sequence of length <= %d over a %d-command alphabet x %d preset datasets" % (
            d, len(gen_set.alphabet()), len(gen_set.PRESETS))

    def rule(self):
        return ("scripts = preset dataset (sets, emptied sets, other types, deadlines) + set commands + final SMEMBERS/SCARD of "
                "every key + digest; streams: exhaustive small scope (operands missing / repeated / wrong-typed, destination = source, "
                "duplicate members, LIMIT forms), random histories over 4 keys, malformed (arity, non-integers), alias probes "
                "(...STORE then writes to destination or source then re-read all; read-only algebra then re-read operands), "
                "randomised (SPOP/SRANDMEMBER with any count: reference oracle only, selections validated as hints). "
                "distinct = distinct canonical script text; non-trivial = at least one successful set write")

    def nontrivial(self, script, impl_lines):
        cmds = [e for e in script.events if e[0] in ("cmd", "digest")]
        for e, l in zip(cmds, impl_lines):
            if e[0] == "cmd" and str(e[2]).upper() in gen_set.WRITES and l.startswith("R ") and l not in ("R -", "R !", "R :0"):
                return True
        return False

    # ---- reference oracle
    def _split(self, script, impl_lines):
        """-> (index of the digest that ends the setup, [(script line, event, impl reply line)] of the commands after it)"""
        outs = [(l, e) for l, e in zip(script.lines, script.events) if e[0] in ("cmd", "digest", "sweep")]
        i0 = next((i for i, (_, e) in enumerate(outs) if e[0] == "digest"), None)
        if i0 is None:
            return None, []
        cmds = []
        for j in range(i0 + 1, len(outs)):
            if outs[j][1][0] == "cmd":
                cmds.append((outs[j][0], outs[j][1], impl_lines[j] if j < len(impl_lines) else "<missing>"))
        return i0, cmds

    def spec_script(self, script, impl_lines):
        i0, cmds = self._split(script, impl_lines)
        if i0 is None or len(impl_lines) <= i0 or not impl_lines[i0].startswith("G "):
            return None
        dg = parse_digest(impl_lines[i0])
        sp = Script(script.id + "_spec")
        now = int(script.cfg.get("now", DEFAULT_NOW))
        for k, (v, dl) in dg["dbs"].get(0, {}).items():
            if dl != 0 and dl < now:
                continue
            if v.startswith("S{") and v != "S{nil}":
                body = v[2:-1]
                sp.raw("V %s S %s" % (k, body) if body != "" else "V %s S" % k)
            else:
                sp.raw("V %s o" % k)
        for line, ev, reply in cmds:
            sel = _sel_of(reply) if str(ev[2]).upper() in gen_set.RANDOMISED else None
            if sel is not None:
                sp.raw("H" + line[1:] + " | " + " ".join(sel), ev)
            else:
                sp.raw(line, ev)
        return sp

    def spec_compare(self, script, impl_lines, spec_lines):
        i0, cmds = self._split(script, impl_lines)
        if i0 is None:
            return None
        known = None
        for i in range(max(len(cmds), len(spec_lines))):
            x = cmds[i][2] if i < len(cmds) else "<missing>"
            y = spec_lines[i] if i < len(spec_lines) else "<missing>"
            name = str(cmds[i][1][2]).upper() if i < len(cmds) else ""
            in_kf = y.startswith("K ")
            if in_kf:
                y = "R " + y[2:]
            if x == y:
                continue
            if name in UNORDERED and name not in gen_set.RANDOMISED and _sorted_reply(x) == _sorted_reply(y):
                continue
            if in_kf and x not in ("R !", "DIED", "HUNG", "<missing>"):
                known = KF_SKIP if y == "R -" else KF_BASE
                if name == "SDIFFSTORE":
                    break              # the stored results differ from here on: the rest cannot be followed
                continue
            return {"index": i, "command": cmds[i][1][2:] if i < len(cmds) else None, "impl": x, "reference": y}
        if known:
            # not a rejection: the deviation is inside a recorded finding's trigger class (reported by the
            # KNOWN-FINDING line of this run, which replays the witness); the model-vs-implementation comparison
            # of the same script stays strict, the model being faithful to the recorded behaviour
            self._known[script.id] = known
        return None

    def in_known_trigger(self, script):
        return self._known.get(script.id)

    def replay_known(self, kf):
        w = kf["witness"]
        s = Script("kf_" + kf["id"].replace("-", "_"))
        for k, v in w.get("preset", []):
            s.preset(0, k, v)
        s.digest()
        for c in w["commands"]:
            s.cmd(0, *c)
        s.digest()
        im = run_impl([s])
        sp = self.spec_script(s, im.get(s.id, []))
        if sp is None:
            return False
        so = run_model([sp], self.spec_mode)
        r = self.spec_compare(s, im.get(s.id, []), so.get(sp.id, ["<none>"]))
        return r is None and self._known.get(s.id) == kf["id"]

    def assumptions(self):
        return ["no memory limit configured (st_maxmem = 0): refusals at the limit belong to C08",
                "no clock advance inside a C16 script (expiry transparency is C04); keys may carry deadlines, also passed ones",
                "the memory figure is not compared (in-place mutation of sets: C19)",
                "SPOP/SRANDMEMBER counts are optionally signed digit strings or non-numeric tokens (AdaptType is modelled exactly there)",
                "the reference adopts, where statement and docs are silent: an emptied set stays as an empty set; a ...STORE with an empty "
                "result stores the empty set and keeps the destination's deadline; SPOP/SRANDMEMBER reply an array also without a count, "
                "and a nil array for a missing key; a negative SPOP count selects like SRANDMEMBER and removes what was selected; "
                "SINTERCARD: LIMIT <= 0 means no limit, arguments after the limit value are ignored; SMOVE from a missing source replies 0 "
                "whatever the destination holds"]
