"""C04 plumbing shared by checks/C04.py: hints for the sampler passes, model scripts, oracle scripts."""
import re
from common import *
from framework import parse_digest, DEFAULT_NOW

OUT_EVENTS = ("cmd", "digest", "sweep")

def outs_of(script):
    return [(l, e) for l, e in zip(script.lines, script.events) if e[0] in OUT_EVENTS]

def with_hints(script, impl_lines):
    """the model's copy of a script: every `W <db>` gets the keys (hex) that left database <db> between the
    implementation's digests before and after the pass"""
    m = Script(script.id, script.cfg)
    m.events = list(script.events)
    oi = 0
    last_digest = None
    lines = []
    outs_idx = []
    for l, e in zip(script.lines, script.events):
        if e[0] in OUT_EVENTS:
            outs_idx.append(oi); my = oi; oi += 1
        else:
            my = None
        if e[0] == "digest" and my is not None and my < len(impl_lines) and impl_lines[my].startswith("G "):
            last_digest = impl_lines[my]
        if e[0] == "sweep":
            gone = []
            nxt = impl_lines[my + 1] if my is not None and my + 1 < len(impl_lines) else None
            if last_digest and nxt and nxt.startswith("G "):
                a = parse_digest(last_digest)["dbs"].get(e[1], {}); b = parse_digest(nxt)["dbs"].get(e[1], {})
                gone = [k for k in a if k not in b]
            lines.append(l + "".join(" " + k for k in gone))
        else:
            lines.append(l)
    m.lines = lines
    return m

def reply_lines(script, impl_lines):
    """[(argv, reply line)] of the commands, in order"""
    res = []
    for (l, e), out in zip(outs_of(script), impl_lines):
        if e[0] == "cmd":
            res.append((e[2:], out))
    return res
