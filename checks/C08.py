"""C08 — max-memory policy: who may be evicted, in what order, and when."""
import json, re
from common import *
import framework
from framework import *
import gen_evict

KF_LRU = "KF-C08-lru-evicts-most-recent"

# ---- cache dumps: entries sorted by key, stamps replaced by their rank, databases without cache content dropped
_DB = re.compile(r"db(-?\d+) lru\[([^\]]*)\]k\[([^\]]*)\] lfu\[([^\]]*)\]k\[([^\]]*)\]")
def norm_caches(line, stamps_matter=True):
    if not line.startswith("K"):
        return line
    if not stamps_matter:
        line = re.sub(r"@\d+", "@0", line)
    dbs = []
    stamps = set()
    for m in _DB.finditer(line):
        lru = [tuple(x.split("@")) for x in m.group(2).split(",") if x]
        lfu = []
        for x in m.group(4).split(","):
            if x:
                k, rest = x.split("#"); c, a = rest.split("@"); lfu.append((k, c, a))
        for e in lru: stamps.add(int(e[1]))
        for e in lfu: stamps.add(int(e[2]))
        dbs.append((int(m.group(1)), lru, m.group(3), lfu, m.group(5)))
    rank = {t: i for i, t in enumerate(sorted(stamps))}
    parts = []
    for db, lru, lk, lfu, fk in sorted(dbs):
        if not lru and not lfu and not lk and not fk:
            continue
        parts.append("db%d lru[%s]k[%s] lfu[%s]k[%s]" % (
            db, ",".join("%s@%d" % (k, rank[int(t)]) for k, t in sorted(lru)), lk,
            ",".join("%s#%s@%d" % (k, c, rank[int(a)]) for k, c, a in sorted(lfu)), fk))
    return "K " + " ".join(parts)

_plain_compare = framework.compare_lines
def _compare_lines(script, impl_lines, model_lines, reply_opts=None, digest_opts=None):
    sm = not getattr(script, "oracle_only", False)
    a = [norm_caches(l, sm) for l in impl_lines]
    b = [norm_caches(l, sm) for l in model_lines]
    return _plain_compare(script, a, b, reply_opts, digest_opts)

def entry_size(valtext, keyhex):
    klen = 0 if keyhex == "-" else len(keyhex) // 2
    if valtext.startswith("s"):
        body = 16 + (0 if valtext[1:] == "-" else len(valtext[1:]) // 2)
    elif valtext[:1] in "if":
        body = 8
    elif valtext.startswith("l["):
        body = sum(16 + (0 if h == "-" else len(h) // 2) for h in valtext[2:-1].split(",") if h)
    else:
        body = len(valtext)
    return 24 + body + 16 + klen

def hinted(script, impl_lines):
    """The same script with an 'H db:key ...' line before every command and every quiesce: the keys the
    implementation lost there, smallest entry first (any eviction order that respects the stop rule can be
    replayed smallest-first), databases that were emptied of candidates first."""
    out = Script(script.id, script.cfg)
    out.oracle_only = getattr(script, "oracle_only", False)
    out.setup_len = getattr(script, "setup_len", 0)
    pos = 0
    last = None          # last digest seen
    n = len(script.lines)
    def take():
        nonlocal pos
        l = impl_lines[pos] if pos < len(impl_lines) else None
        pos += 1
        return l
    # first pass: the digest that follows each line index
    after = {}
    p = 0
    outs = []
    for i, line in enumerate(script.lines):
        k = line[:1]
        got = None
        if k == "P":
            if p < len(impl_lines) and impl_lines[p] == "P -":
                got = impl_lines[p]; p += 1
        elif k in "CGQKW":
            got = impl_lines[p] if p < len(impl_lines) else None
            p += 1
        outs.append(got)
    def next_digest(i):
        for j in range(i + 1, n):
            if script.lines[j] == "G":
                return outs[j]
            if script.lines[j][:1] in "CQP":
                return None
        return None
    last = None
    for i, (line, ev) in enumerate(zip(script.lines, script.events)):
        if line[:1] in "CQ":
            nd = next_digest(i)
            hint = []
            if last and nd and last.startswith("G ") and nd.startswith("G "):
                d0, d1 = parse_digest(last), parse_digest(nd)
                for db, ents in d0["dbs"].items():
                    for k, (v, dl) in ents.items():
                        if k not in d1["dbs"].get(db, {}):
                            hint.append((len(d1["dbs"].get(db, {})) > 0, entry_size(v, k), db, k))
                hint.sort()
            out.lines.append("H " + " ".join("%d:%s" % (db, k) for _, _, db, k in hint) if hint else "H")
            out.events.append(["hint"])
        out.lines.append(line); out.events.append(ev)
        if line == "G" and outs[i]:
            last = outs[i]
    return out

_plain_run_model = framework.run_model
class _Shim:
    """framework.run() re-runs scripts while shrinking: 'model' runs need hints from an implementation run."""
    def __init__(self, check): self.check = check
    def __call__(self, scripts, mode="model"):
        if mode != "model":
            return _plain_run_model(scripts, mode)
        im = run_impl(scripts, self.check.per_script_timeout())
        return _plain_run_model([hinted(s, im.get(s.id, [])) for s in scripts], "model08")

class C08(PropertyCheck):
    prop = "C08"
    theorem_file = "Properties/C08.v"
    spec_mode = "spec08"

    def per_script_timeout(self):
        return 3.0

    def run(self):
        framework.run_model = _Shim(self)
        framework.compare_lines = _compare_lines
        try:
            return super().run()
        finally:
            framework.run_model = _plain_run_model
            framework.compare_lines = _plain_compare

    def evaluate(self, scripts):
        impl = run_impl(scripts, self.per_script_timeout())
        hs = {s.id: hinted(s, impl.get(s.id, [])) for s in scripts}
        model = _plain_run_model(list(hs.values()), "model08")
        spec = _plain_run_model(list(hs.values()), "spec08")
        div, rej = [], []
        for s in scripts:
            a = impl.get(s.id, ["<no output>"])
            if not getattr(s, "oracle_only", False):
                d = _compare_lines(s, a, model.get(s.id, ["<no output>"]))
                if d:
                    div.append((s, d))
            r = self.spec_compare(s, a, spec.get(s.id, ["<no output>"]))
            if r:
                rej.append((s, r))
        return impl, model, div, rej

    def corpus(self):
        out = super().corpus()
        for s in out:
            s.oracle_only = any(l.startswith("P ") for l in s.lines)
        return out

    def spec_script(self, script, impl_lines):
        return hinted(script, impl_lines)

    def spec_compare(self, script, impl_lines, spec_lines):
        for l in impl_lines:
            if l in ("DIED", "HUNG", "Q HUNG", "R !"):
                return {"verdict": "the server died, hung or panicked", "line": l}
        d = _compare_lines(script, impl_lines, spec_lines)
        if d:
            return {"verdict": "trace not allowed by the reference", "index": d[0], "impl": d[1], "reference": d[2]}
        return None

    def in_known_trigger(self, script):
        # trigger class of the LRU finding: an LRU policy with a memory limit
        if script.cfg.get("policy") in ("allkeys-lru", "volatile-lru") and int(script.cfg.get("maxmem", 0)) > 0:
            return KF_LRU
        return None

    def streams(self):
        q = self.tier == "quick"
        rng = self.rng
        return {
            "exhaustive": gen_evict.exhaustive("x"),
            "random": gen_evict.random_scripts(rng, 150 if q else 3000, 14, "r"),
            "multikey": gen_evict.random_scripts(rng, 60 if q else 1000, 12, "k", multi=True),
            "multidb": gen_evict.random_scripts(rng, 40 if q else 800, 10, "d", dbs=(0, 1, 2)),
            "malformed": gen_evict.malformed(rng, 40 if q else 500, "m"),
        }

    def exhaustive_note(self):
        return "7 policies x 13 limits on the canonical limit-crossing history; 7 policies x 12 x 6 two-command tails after a 3-key fill at the limit"

    def rule(self):
        return ("scripts = config (policy, maxmem from the model's accounting) + commands over 6 keys, each followed by digest, quiesce "
                "(parked cache-update goroutines run in start order, 2 ms apart), digest, cache dump; distinct = distinct script text; "
                "non-trivial = usage reached the limit at least once (an eviction or a refused write happened)")

    def nontrivial(self, script, impl_lines):
        prev = None
        for l in impl_lines:
            if l == "R -":
                return True
            if l.startswith("G "):
                d = parse_digest(l)
                n = sum(len(v) for v in d["dbs"].values())
                if prev is not None and d["mem"] is not None and int(script.cfg.get("maxmem", 0)) and d["mem"] >= int(script.cfg["maxmem"]):
                    return True
                prev = n
        return False

    def replay_known(self, kf):
        s = script_from_json(kf["witness"])
        im = run_impl([s], self.per_script_timeout()).get(s.id, [])
        sp = _plain_run_model([hinted(s, im)], "spec08").get(s.id, [])
        return bool(self.spec_compare(s, im, sp))

    def assumptions(self):
        return ["cache stamps are time.Now().UnixMilli(): the harness keeps successive updates 2 ms apart, so stamps are distinct and "
                "ordered as the updates; histories with equal stamps (several keys in one update call) are judged by the reference only, "
                "with the implementation's choice as a hint",
                "schedule: a command's cache-update goroutines run after the command, one at a time, in the order they were started "
                "(parked by the verif hook); the invariants of Properties/C08.v are proved for every interleaving at primitive granularity"]
